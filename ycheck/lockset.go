package main

import (
	"fmt"
	"go/token"
	"go/types"
	"sort"
	"strings"

	"golang.org/x/tools/go/ssa"
)

// GuardSpec describes one GUARDED-BY instance: fields of Type are accessed
// only with Type.Mutex held.
type GuardSpec struct {
	Pkg     string
	Type    string
	Mutex   string
	Guarded map[string]bool   // field names that need the lock
	Exempt  map[string]string // "funcKey" or "funcKey#field" -> reason (tabled idioms)
	// Exclusive: only the write lock counts (the guarded fields are modified even by "reads",
	// e.g. a StateDB whose getters fill caches); a shared RLock is treated as not held.
	Exclusive bool
	// EntryHeld lists functions documented as "caller holds the lock" that have
	// no caller inside the package (none today; kept for completeness).
}

type guardAccess struct {
	fn    *ssa.Function
	instr ssa.Instruction
	field string
	held  bool
}

type guardResult struct {
	needs     map[*ssa.Function]string // function -> first reason it needs the lock on entry
	accesses  int
	functions int
}

// lockStates computes, for every instruction of fn, whether spec's mutex is
// held on every path reaching it, given the state at entry.
func lockStates(fn *ssa.Function, isLock, isUnlock func(ssa.CallInstruction) bool, entryHeld bool) map[ssa.Instruction]bool {
	n := len(fn.Blocks)
	in := make([]int, n) // -1 unknown, 0 not held, 1 held
	out := make([]int, n)
	for i := range in {
		in[i], out[i] = -1, -1
	}
	states := map[ssa.Instruction]bool{}
	b2i := func(b bool) int {
		if b {
			return 1
		}
		return 0
	}
	in[0] = b2i(entryHeld)
	changed := true
	for changed {
		changed = false
		for _, b := range fn.Blocks {
			if b.Index != 0 {
				s := -1
				for _, p := range b.Preds {
					if out[p.Index] == -1 {
						continue
					}
					if s == -1 {
						s = out[p.Index]
					} else if out[p.Index] == 0 {
						s = 0
					}
				}
				if s != in[b.Index] {
					in[b.Index] = s
					changed = true
				}
			}
			if in[b.Index] == -1 {
				continue
			}
			cur := in[b.Index]
			for _, ins := range b.Instrs {
				states[ins] = cur == 1
				if ci, ok := ins.(*ssa.Call); ok {
					if isLock(ci) {
						cur = 1
					} else if isUnlock(ci) {
						cur = 0
					}
				}
			}
			if cur != out[b.Index] {
				out[b.Index] = cur
				changed = true
			}
		}
	}
	return states
}

// runGuardedBy checks spec and records obligations under the current rule.
func runGuardedBy(c *Ctx, spec GuardSpec) guardResult {
	w := c.W
	named := w.Named(spec.Pkg, spec.Type)
	st := named.Underlying().(*types.Struct)
	var muField *types.Var
	for i := 0; i < st.NumFields(); i++ {
		if st.Field(i).Name() == spec.Mutex {
			muField = st.Field(i)
		}
	}
	if muField == nil {
		undecided("mutex field %s.%s.%s does not resolve", spec.Pkg, spec.Type, spec.Mutex)
	}
	for f := range spec.Guarded {
		w.Field(spec.Pkg, spec.Type, f)
	}
	isMu := func(recv ssa.Value) bool {
		switch x := recv.(type) {
		case *ssa.FieldAddr:
			return fieldOfAddr(x) == muField
		case *ssa.UnOp:
			if x.Op == token.MUL {
				if fa, ok := x.X.(*ssa.FieldAddr); ok {
					return fieldOfAddr(fa) == muField
				}
			}
		}
		return false
	}
	lockCall := func(ci ssa.CallInstruction, names ...string) bool {
		o := calleeObj(ci)
		if o == nil || o.Pkg() == nil || o.Pkg().Path() != "sync" {
			return false
		}
		hit := false
		for _, n := range names {
			if o.Name() == n {
				hit = true
			}
		}
		if !hit {
			return false
		}
		r := callRecv(ci)
		return r != nil && isMu(r)
	}
	isLock := func(ci ssa.CallInstruction) bool { return lockCall(ci, "Lock", "RLock") }
	isUnlock := func(ci ssa.CallInstruction) bool { return lockCall(ci, "Unlock", "RUnlock") }
	if spec.Exclusive {
		isLock = func(ci ssa.CallInstruction) bool { return lockCall(ci, "Lock") }
	}

	isT := func(t types.Type) bool {
		if p, ok := t.Underlying().(*types.Pointer); ok {
			t = p.Elem()
		}
		return types.Identical(t, named)
	}
	fns := w.FuncsIn(spec.Pkg)
	var pkgFns []*ssa.Function
	for _, fn := range fns {
		if strings.HasSuffix(w.fileOf(fn.Pos()), "_test.go") {
			continue
		}
		pkgFns = append(pkgFns, fn)
	}
	// accesses and call sites with the lock state assuming "not held on entry"
	type site struct {
		caller *ssa.Function
		instr  ssa.Instruction
		held   bool
		kind   string // "call", "defer", "go", "callback"
	}
	accesses := map[*ssa.Function][]guardAccess{}
	callSites := map[*ssa.Function][]site{}
	res := guardResult{needs: map[*ssa.Function]string{}}
	for _, fn := range pkgFns {
		states := lockStates(fn, isLock, isUnlock, false)
		for _, b := range fn.Blocks {
			for _, ins := range b.Instrs {
				// field accesses
				if fa, ok := ins.(*ssa.FieldAddr); ok && isT(fa.X.Type()) {
					f := fieldOfAddr(fa)
					if spec.Guarded[f.Name()] && !isLocalAlloc(fa.X) {
						accesses[fn] = append(accesses[fn], guardAccess{fn: fn, instr: ins, field: f.Name(), held: states[ins]})
					}
				}
				if fv, ok := ins.(*ssa.Field); ok && isT(fv.X.Type()) {
					f := structField(fv.X.Type(), fv.Field)
					if spec.Guarded[f.Name()] {
						accesses[fn] = append(accesses[fn], guardAccess{fn: fn, instr: ins, field: f.Name(), held: states[ins]})
					}
				}
				// calls
				if ci, ok := ins.(ssa.CallInstruction); ok {
					kind := "call"
					switch ins.(type) {
					case *ssa.Defer:
						kind = "defer"
					case *ssa.Go:
						kind = "go"
					}
					if callee := ci.Common().StaticCallee(); callee != nil && callee.Blocks != nil {
						callSites[callee] = append(callSites[callee], site{fn, ins, states[ins] && kind != "go", kind})
					}
					// closures handed over as arguments are taken to run at this point
					for _, a := range ci.Common().Args {
						if mc, ok := stripConv(a).(*ssa.MakeClosure); ok {
							if cf, ok := mc.Fn.(*ssa.Function); ok && cf.Blocks != nil {
								callSites[cf] = append(callSites[cf], site{fn, ins, states[ins] && kind != "go", "callback"})
							}
						}
					}
				}
			}
		}
	}
	// needs-lock fixpoint
	exempt := func(fn *ssa.Function, field string) (string, bool) {
		k := outerName(fname(fn))
		if r, ok := spec.Exempt[k+"#"+field]; ok {
			return r, true
		}
		if r, ok := spec.Exempt[k]; ok {
			return r, true
		}
		return "", false
	}
	exemptUsed := map[string]bool{}
	for _, fn := range pkgFns {
		for _, a := range accesses[fn] {
			res.accesses++
			if a.held {
				continue
			}
			if _, ok := exempt(fn, a.field); ok {
				exemptUsed[outerName(fname(fn))+"#"+a.field] = true
				continue
			}
			if _, has := res.needs[fn]; !has {
				res.needs[fn] = "reads/writes " + spec.Type + "." + a.field + " at " + w.Pos(a.instr.Pos())
			}
		}
	}
	changed := true
	for changed {
		changed = false
		for callee := range res.needs {
			for _, s := range callSites[callee] {
				if s.held {
					continue
				}
				if _, has := res.needs[s.caller]; !has {
					res.needs[s.caller] = "calls " + fname(callee) + " at " + w.Pos(s.instr.Pos()) + " (which " + res.needs[callee] + ")"
					changed = true
				}
			}
		}
	}
	// verdicts
	var all []*ssa.Function
	seen := map[*ssa.Function]bool{}
	for _, fn := range pkgFns {
		if len(accesses[fn]) > 0 || res.needs[fn] != "" {
			if !seen[fn] {
				seen[fn] = true
				all = append(all, fn)
			}
		}
	}
	sort.Slice(all, func(i, j int) bool { return fname(all[i]) < fname(all[j]) })
	for _, fn := range all {
		res.functions++
		c.sawFunc(fname(fn))
		why, needs := res.needs[fn]
		name := fname(fn)
		if !needs {
			c.Pass(name, fn.Pos(), "every guarded access happens with "+spec.Type+"."+spec.Mutex+" held (taken in this function or its callees hold it)")
			continue
		}
		// entry points that need the lock on entry
		isEntry, how := false, ""
		if fn.Parent() == nil {
			if o, ok := fn.Object().(*types.Func); ok && o.Exported() && fn.Signature.Recv() != nil {
				isEntry, how = true, "exported method"
			}
			if o, ok := fn.Object().(*types.Func); ok && o.Exported() && fn.Signature.Recv() == nil {
				isEntry, how = true, "exported function"
			}
		}
		for _, s := range callSites[fn] {
			if s.kind == "go" {
				isEntry, how = true, "started as a goroutine at "+w.Pos(s.instr.Pos())
			}
		}
		if fn.Parent() == nil && isConstructorOf(fn, named) {
			c.Pass(name, fn.Pos(), "constructor: the object is not shared yet")
			continue
		}
		if isEntry {
			c.Fail(name, fn.Pos(), how+" reaches guarded state without holding "+spec.Type+"."+spec.Mutex+": "+why+" — concurrent use races (Go aborts on concurrent map access)")
			continue
		}
		if len(callSites[fn]) == 0 && fn.Parent() == nil {
			c.Pass(name, fn.Pos(), "requires the lock on entry and has no caller in the package (unreachable helper)")
			continue
		}
		c.Pass(name, fn.Pos(), fmt.Sprintf("requires the lock on entry; all %d call sites hold it or are themselves lock-requiring helpers", len(callSites[fn])))
	}
	for k, r := range spec.Exempt {
		if !exemptUsed[k] && strings.Contains(k, "#") {
			c.Note("tabled exemption %s (%s) matched no unlocked access on this tree", k, r)
		}
	}
	return res
}

// isConstructorOf: a package-level function returning *T (or T) that allocates it.
func isConstructorOf(fn *ssa.Function, named *types.Named) bool {
	if fn.Signature.Recv() != nil {
		return false
	}
	res := fn.Signature.Results()
	for i := 0; i < res.Len(); i++ {
		t := res.At(i).Type()
		if p, ok := t.Underlying().(*types.Pointer); ok {
			t = p.Elem()
		}
		if types.Identical(t, named) {
			return true
		}
	}
	return false
}

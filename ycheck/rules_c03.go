package main

import (
	"fmt"
	"go/constant"
	"go/token"
	"go/types"
	"strings"

	"golang.org/x/tools/go/ssa"
)

// C03 — votes escalate and blocks commit only on a counted quorum.

func init() {
	register(&propDef{
		ID:          "C03",
		Explanation: "Structural necessary conditions of quorum-driven escalation, decided on the SSA form of consensus/ucon: every escalation in judgeVoteCount (precommit, certificate vote, commit, round-index change) is dominated by the quorum comparison on its own count/threshold parameters and has no other caller (Q1); a received vote is counted only after signature, sender, stake and sortition checks and a not-yet-voted result, and the count judged is the one returned by counting that vote for that block (Q2); the sortition/priority verifiers handed to the voter and the proposal handler return nil only on a successful VRF verification (Q3); a double voter's weight is removed together with the flag, and weight is only added for a first vote (Q4); the signed vote payload has one layout at all four sites (Q5); live thresholds derive from protocol parameters (Q6). Not decided: interleavings of events, that packed votes yield an accepted header as values.",
		Assumptions: []string{"the event loop is the only driver of Voter methods (they run under Voter.lock)", "VrfVerifySortition / VrfVerifyPriority implement their contracts"},
		Run:         runC03,
		Variants:    c03Variants,
	})
}

func runC03(c *Ctx) {
	w := c.W
	jvc := w.Fn(uconPkg, "Voter", "judgeVoteCount")
	pvm := w.Fn(uconPkg, "Voter", "processVoteMsg")
	voteFn := w.Fn(uconPkg, "Voter", "vote")
	voteObj := voteFn.Object().(*types.Func)
	commitObj := w.FuncObj(uconPkg, "Voter", "commit")
	overTh := w.FuncObj(uconPkg, "", "OverThreshold")
	jvcObj := jvc.Object().(*types.Func)
	c.sawFunc(fname(jvc))
	c.sawFunc(fname(pvm))
	kindVal := func(n string) int64 {
		v, _ := constant.Int64Val(constant.ToInt(constOf(w, uconPkg, n)))
		return v
	}

	// ------------------------------------------------------------ Q1
	c.Rule("C03.Q1", "GATE+CONFINED", "in judgeVoteCount every vote(Precommit|Certificate), commit and RoundIndexChangeEvent post is dominated by OverThreshold(count, threshold, ...)==true on the function's own count and threshold parameters; commit and the escalating votes have no other caller")
	c.Min(7)
	ots := callsTo(jvc, overTh)
	gateOK := func(site ssa.Instruction) bool {
		for _, ot := range ots {
			a := callArgs(ot)
			if stripConv(a[0]) == ssa.Value(jvc.Params[2]) && stripConv(a[1]) == ssa.Value(jvc.Params[3]) && gatedByBool(site, ot, 0, true) {
				return true
			}
		}
		return false
	}
	ricEv := w.Named(uconPkg, "RoundIndexChangeEvent")
	for _, ci := range callInstrs(jvc) {
		o := calleeObj(ci)
		var what string
		switch {
		case sameFunc(o, voteObj):
			what = "vote"
		case sameFunc(o, commitObj):
			what = "commit"
		case o != nil && (o.Name() == "AsyncPost" || o.Name() == "Post") && len(callArgs(ci)) > 0 && types.Identical(stripConv(callArgs(ci)[0]).Type(), ricEv):
			what = "round-index-change"
		default:
			// a part of judgeVoteCount factored out into a helper that escalates: judged at its call
			if h := ci.Common().StaticCallee(); onlyCalledFrom(w, h, jvc) {
				for _, cj := range callInstrs(h) {
					oj := calleeObj(cj)
					switch {
					case sameFunc(oj, commitObj):
						what = "commit"
					case sameFunc(oj, voteObj) && what == "":
						what = "vote"
					}
				}
			}
			if what == "" {
				continue
			}
		}
		c.sites++
		ok := gateOK(ci)
		c.Check(fmt.Sprintf("%s#%s@%s", fname(jvc), what, siteOrdinal(jvc, ci, what)), ci.Pos(), ok, ifelse(ok, "dominated by the quorum comparison on (count, threshold)", "escalation ("+what+") is reachable without the quorum comparison having succeeded on the counted weight"))
	}
	for _, fn := range w.FuncsIn(uconPkg) {
		if strings.HasSuffix(w.fileOf(fn.Pos()), "_test.go") {
			continue
		}
		for _, ci := range callsTo(fn, commitObj) {
			ok := fn == jvc || onlyCalledFrom(w, fn, jvc)
			c.Check(outerName(fname(fn))+"#calls-commit", ci.Pos(), ok, ifelse(ok, "commit is called from judgeVoteCount only", "commit is called outside the quorum-gated escalation"))
		}
		for _, ci := range callsTo(fn, voteObj) {
			k, isK := constInt(callArgs(ci)[0])
			if !isK || (k != kindVal("Precommit") && k != kindVal("Certificate")) {
				continue
			}
			ok := fn == jvc || onlyCalledFrom(w, fn, jvc)
			c.Check(outerName(fname(fn))+"#calls-vote-escalation", ci.Pos(), ok, ifelse(ok, "precommit/certificate votes are cast from judgeVoteCount only", "a precommit or certificate vote is cast outside the quorum-gated escalation"))
		}
		// every caller hands judgeVoteCount a count that was produced by counting a vote
		for _, ci := range callsTo(fn, jvcObj) {
			cnt := stripConv(callArgs(ci)[1])
			ok := false
			if e, isE := cnt.(*ssa.Extract); isE && e.Index == 1 {
				if call, isC := e.Tuple.(*ssa.Call); isC {
					if o := calleeObj(call); o != nil && o.Name() == "newVote" {
						ok = true
					}
				}
			}
			c.Check(outerName(fname(fn))+"#judged-count", ci.Pos(), ok, ifelse(ok, "the count judged is the total returned by newVote", "judgeVoteCount is handed a count that is not the total returned by counting a vote"))
		}
	}
	// the stale-precommit branch: header update only over the quorum
	ueh := w.Named(uconPkg, "UpdateExistedHeaderEvent")
	for _, ci := range callInstrs(pvm) {
		o := calleeObj(ci)
		if o == nil || (o.Name() != "AsyncPost" && o.Name() != "Post") || len(callArgs(ci)) == 0 || !types.Identical(stripConv(callArgs(ci)[0]).Type(), ueh) {
			continue
		}
		ok := false
		for _, ot := range callsTo(pvm, overTh) {
			if gatedByBool(ci, ot, 0, true) {
				ok = true
			}
		}
		c.Check(fname(pvm)+"#header-update", ci.Pos(), ok, ifelse(ok, "posted only over the quorum", "an existing header is updated with votes that did not reach the quorum"))
	}

	// ------------------------------------------------------------ Q2
	c.Rule("C03.Q2", "GATE+SAME-VALUE", "in processVoteMsg a vote is counted (newVote) only after: signer recovered from the signature, signer == envelope sender, stake lookup and sortition verification succeeded, and the signer has not voted; the weight stored is the weight verified; judgeVoteCount gets the total, kind and block of exactly that newVote")
	c.Min(6)
	c03Q2(c, w, pvm, jvcObj)

	// ------------------------------------------------------------ Q3
	c.Rule("C03.Q3", "EXIT", "(*Server).verifySortition and (*Server).verifyPriority — the functions installed as the voter's and the proposal handler's verifiers — return nil only on the success edge of VrfVerifySortition / VrfVerifyPriority")
	c.Min(2)
	vrfSort := w.Fn(uconPkg, "", "VrfVerifySortition")
	vrfPrio := w.Fn(uconPkg, "", "VrfVerifyPriority")
	for _, vf := range []struct {
		fn  *ssa.Function
		vrf *ssa.Function
	}{{w.Fn(uconPkg, "Server", "verifySortition"), vrfSort}, {w.Fn(uconPkg, "Server", "verifyPriority"), vrfPrio}} {
		c.sawFunc(fname(vf.fn))
		calls := callsTo(vf.fn, vf.vrf.Object().(*types.Func))
		if len(calls) == 0 {
			c.Undecided(fname(vf.fn)+"#verifier", vf.fn.Pos(), "no call of "+vf.vrf.Name())
			continue
		}
		falseImpliesErr := boolFalseImpliesErr(vf.vrf)
		for i, rp := range returnPaths(vf.fn, errResultIdx(vf.fn)) {
			if !rp.MayBeNil() {
				continue
			}
			c.sites++
			ok := false
			atoms := rp.Atoms()
			for _, vc := range calls {
				if hasBoolResult(atoms, vc, 0, true) && hasErrNil(atoms, vc) {
					ok = true
				}
				// returns the verifier's own error on its failure branch
				if rp.Kind == RetForward && rp.Call == vc && falseImpliesErr {
					ok = true
				}
			}
			c.Check(fmt.Sprintf("%s#accepting-return-%d", fname(vf.fn), i), rp.Ret.Pos(), ok, ifelse(ok, "nil only after a successful VRF verification", "the verifier can return nil although "+vf.vrf.Name()+" did not succeed: an unverified credential is accepted (and its weight counted)"))
		}
	}
	// the installed verifiers are these functions
	for _, inst := range []struct{ ctor, method string }{{"NewVoter", "verifySortition"}, {"NewProposal", "verifyPriority"}} {
		ctor := w.FuncObj(uconPkg, "", inst.ctor)
		found := false
		for _, fn := range w.FuncsIn(uconPkg) {
			for _, ci := range callsTo(fn, ctor) {
				for _, a := range ci.Common().Args {
					if mc, ok := stripConv(a).(*ssa.MakeClosure); ok {
						if f, ok := mc.Fn.(*ssa.Function); ok && strings.Contains(f.Name(), inst.method) {
							found = true
						}
					}
				}
			}
		}
		c.Check("consensus/ucon."+inst.ctor+"#installs-"+inst.method, 0, found, ifelse(found, "the checked function is the installed verifier", "the verifier installed by "+inst.ctor+" is no longer (*Server)."+inst.method+": Q3 judges the wrong function"))
	}

	// ------------------------------------------------------------ Q4
	c.Rule("C03.Q4", "ALWAYS-WITH", "in (*VoteSta).addrVoteInfo flagging a double voter goes with subtracting its weight from voteCounts and deleting it from votesInfo; in (*VoteSta).newVote weight is added only for an address seen for the first time, together with recording that address")
	c.Min(3)
	c03Q4(c, w)

	// ------------------------------------------------------------ Q5
	c.Rule("C03.Q5", "SIBLINGS", "the byte layout of the vote payload is block hash ‖ round bytes ‖ 4-byte round index at the signing site, the two verification sites and the slashing evidence check")
	c.Min(4)
	c03Q5(c, w)

	// ------------------------------------------------------------ Q6
	c.Rule("C03.Q6", "PROVENANCE", "the threshold returned by getLookbackStakeInfo (the source of every live quorum base) derives from protocol parameters only, and StepView.Threshold / judgeVoteCount thresholds derive from it")
	c.Min(3)
	c03Q6(c, w, pvm, jvcObj)

	// ------------------------------------------------------------ Q7
	c.Rule("C03.Q7", "RESET-WITH", "in (*Voter).updateContext the per-(round, round index) counting state — the quorum-crossed flags voteOver and the vote container votesMgr — is replaced on every path on which the stored round or round index changes: a path that reaches the store of the new round index without replacing them has established round == ev.Round and roundIndex == ev.RoundIndex")
	c.Min(2)
	c03Q7(c, w)

	// ------------------------------------------------------------ Q8
	c.Rule("C03.Q8", "GATE", "judgeVoteCount escalates in the voter's own (round, round index); in processVoteMsg every path to that call has tested the message's round equal to the voter's round (Cmp == 0) and the message's round index equal to the voter's round index — the handler's classification is made on another goroutine's context and is re-checked here; also the voter's current vote container is replaced (votesMgr = NewWrapper) only on such paths")
	c.Min(2)
	c03Q8(c, w, pvm, jvcObj)

	// ------------------------------------------------------------ Q9
	c.Rule("C03.Q9", "SAME-VALUE", "the block attached to a commit is the block that was voted for: commit looks the block up under the hash whose votes it attaches, and every function that can be installed as the block lookup returns nil or the entry stored under exactly the hash it was asked for; the cache stores a block only under its own hash")
	c.Min(4)
	c03Q9(c, w)

	// ------------------------------------------------------------ Q10
	c.Rule("C03.Q10", "SIBLINGS", "signer, counter and verifier resolve a vote's signer index in the same validator set — the stake look-back set (certificate votes: the certificate stake look-back): every call in consensus/ucon that opens a validator reader from a look-back kind passes a stake kind (shared with C01.R7); otherwise the votes attached to a commit carry indexes the header verifier resolves to other validators and no verifier accepts the set")
	c.Min(4)
	lookBackStakeKinds(c, w)

	// ------------------------------------------------------------ Q11
	c.Rule("C03.Q11", "GATE", "a commit is announced only with a counted precommit quorum of the chamber for that block, and in certificate rounds with a certificate quorum too: every call of commit in judgeVoteCount is dominated by (the quorum just crossed is the precommit one: voteType == Precommit) or (voteStatus.status(Precommit, KindChamber) == true), and — unless shouldCert is known false — by voteType == Certificate or status(Certificate, KindChamber) == true. The prevote quorum is always seen first, so gating on it lets certificate votes that overtake the precommits produce a commit whose precommit set no verifier accepts")
	c.Min(3)
	{
		jvcFn := w.Fn(uconPkg, "Voter", "judgeVoteCount")
		commitObj := w.FuncObj(uconPkg, "Voter", "commit")
		preV, _ := constant.Int64Val(constant.ToInt(constOf(w, uconPkg, "Precommit")))
		certV, _ := constant.Int64Val(constant.ToInt(constOf(w, uconPkg, "Certificate")))
		chamberV, _ := constant.Int64Val(constant.ToInt(constOf(w, "params", "KindChamber")))
		var vtParam *ssa.Parameter
		for _, prm := range jvcFn.Params {
			if ownerName(prm.Type()) == "VoteType" {
				vtParam = prm
			}
		}
		shouldCertF := w.Field(uconPkg, "Voter", "shouldCert")
		n := 0
		// commit sites: the calls of commit in judgeVoteCount, and the calls of a factored-out part that commits
		type csite struct {
			at    ssa.Instruction
			atoms []Atom
		}
		var csites []csite
		for _, ci := range callsTo(jvcFn, commitObj) {
			csites = append(csites, csite{ci.(ssa.Instruction), atomsOf(factsAtInstr(ci.(ssa.Instruction)))})
		}
		for _, cj := range callInstrs(jvcFn) {
			h := cj.Common().StaticCallee()
			if !onlyCalledFrom(w, h, jvcFn) {
				continue
			}
			for i, prm := range h.Params {
				if i < len(cj.Common().Args) {
					paramBind[prm] = cj.Common().Args[i]
				}
			}
			for _, ck := range callsTo(h, commitObj) {
				atoms := append(atomsOf(factsAtInstr(cj.(ssa.Instruction))), atomsOf(factsAtInstr(ck.(ssa.Instruction)))...)
				csites = append(csites, csite{cj.(ssa.Instruction), atoms})
			}
		}
		for _, cs := range csites {
			{
				n++
				c.sites++
				atoms := cs.atoms
				ci := cs.at
				kindIs := func(k int64) bool {
					for _, a := range atoms {
						if a.Kind == "eq" && a.Truth && a.Y != nil && vtParam != nil {
							if cv, isC := constInt(a.Y); isC && cv == k && bound(stripConv(a.X)) == ssa.Value(vtParam) {
								return true
							}
							if cv, isC := constInt(a.X); isC && cv == k && bound(stripConv(a.Y)) == ssa.Value(vtParam) {
								return true
							}
						}
					}
					return false
				}
				statusOf := func(k int64) bool {
					for _, a := range atoms {
						if a.Kind != "true" || !a.Truth {
							continue
						}
						cc, isCall := stripConv(a.X).(*ssa.Call)
						if !isCall || calleeObj(cc) == nil || calleeObj(cc).Name() != "status" || recvName(calleeObj(cc)) != "VoteStatus" {
							continue
						}
						args := callArgs(cc)
						if len(args) < 2 {
							continue
						}
						kv, ok1 := constInt(args[0])
						kk, ok2 := constInt(args[1])
						if ok1 && ok2 && kv == k && kk == chamberV {
							return true
						}
					}
					return false
				}
				noCert := false
				for _, a := range atoms {
					if a.Kind == "true" && !a.Truth {
						if f, _ := loadedField(stripConv(a.X)); f == shouldCertF {
							noCert = true
						}
					}
				}
				pre := kindIs(preV) || statusOf(preV)
				cert := noCert || kindIs(certV) || statusOf(certV)
				ok := pre && cert
				c.Check(fmt.Sprintf("%s#commit-%d-needs-precommit-and-certificate-quorum", fname(jvcFn), n), ci.Pos(), ok, ifelse(ok, "dominated by the precommit quorum (and the certificate quorum unless the round needs none)", fmt.Sprintf("commit is reachable without (precommit quorum of the chamber=%v, certificate quorum or no-certificate round=%v): the commit announces a block whose attached precommit / certificate set is below the quorum, and the header built from it is rejected by every verifier", pre, cert)))
			}
		}
		if n == 0 {
			c.Undecided(fname(jvcFn)+"#commit-sites", jvcFn.Pos(), "no call of commit found in judgeVoteCount")
		}
	}

	// ------------------------------------------------------------ Q12
	c.Rule("C03.Q12", "GATE", "the votes attached to a committed header all belong to the round index it was committed in: (*Server).updateBlockHeader — which merges late precommits into a stored header and writes it back — reaches the write (UpdateExistedHeader) only on paths that compared the event's round index with the round index recorded in the stored header and found them equal. A block carried over from index a and committed at index b otherwise gets one more index-a precommit merged in: that vote signs another payload and carries another sortition proof, the aggregate no longer verifies and syncing peers reject the canonical block")
	c.Min(1)
	{
		ub := w.Fn(uconPkg, "Server", "updateBlockHeader")
		c.sawFunc(fname(ub))
		n := 0
		for _, ci := range callInstrs(ub) {
			o := calleeObj(ci)
			if o == nil || o.Name() != "UpdateExistedHeader" {
				continue
			}
			n++
			c.sites++
			same := false
			for _, a := range atomsOf(factsAtInstr(ci.(ssa.Instruction))) {
				if a.Kind != "eq" || !a.Truth || a.Y == nil {
					continue
				}
				fx, _ := loadedField(stripConv(a.X))
				fy, _ := loadedField(stripConv(a.Y))
				if fx == nil || fy == nil || fx.Name() != "RoundIndex" || fy.Name() != "RoundIndex" {
					continue
				}
				ox, oy := fieldOwner(w, fx), fieldOwner(w, fy)
				if ox != oy && (ox == "UpdateExistedHeaderEvent" || oy == "UpdateExistedHeaderEvent") {
					same = true
				}
			}
			c.Check(fmt.Sprintf("%s#merges-only-votes-of-the-header's-round-index-%d", fname(ub), n), ci.Pos(), same, ifelse(same, "ev.RoundIndex == stored header's round index dominates the write-back", "late votes are merged into a stored header without comparing their round index with the one the header was committed in: the canonical header then fails verification (signature mismatch)"))
		}
		if n == 0 {
			c.Undecided(fname(ub)+"#write-back", ub.Pos(), "the write-back of the merged header was not found")
		}
	}

	// ------------------------------------------------------------ Q13
	c.Rule("C03.Q13", "ALWAYS-WITH", "a recorded quorum does not outlive the weight it was recorded for: the voter remembers that a block crossed a quorum (VoteStatus.update) and later steps read that memory (status) instead of the tally; the tally can fall again — a sender that votes for a second block has its weight taken out of the first (addrDifferentVote) — so in that case of processVoteMsg the memory is withdrawn when the remaining tally is below the quorum (a call that deletes from the VoteStatus maps, under OverThreshold == false). Otherwise one equivocator lets the node commit, in a certificate round, a block whose attached precommit set weighs less than the quorum: every verifier rejects the header and the node cannot commit again in that index")
	c.Min(1)
	{
		pvmFn := w.Fn(uconPkg, "Voter", "processVoteMsg")
		diffV, _ := constant.Int64Val(constant.ToInt(constOf(w, uconPkg, "addrDifferentVote")))
		overTh := w.FuncObj(uconPkg, "", "OverThreshold")
		// VoteStatus methods that withdraw (delete from the maps)
		withdraws := map[*ssa.Function]bool{}
		for _, fn := range w.FuncsIn(uconPkg) {
			if fn.Blocks == nil || fn.Signature.Recv() == nil || ownerName(fn.Signature.Recv().Type()) != "VoteStatus" {
				continue
			}
			for _, fw := range fieldWrites(fn) {
				if fw.Kind == "delete" || (fw.Kind == "mapupdate" && isFalseStore(fw.Instr)) {
					withdraws[fn] = true
				}
			}
		}
		c.sites++
		ok := false
		for _, ci := range callInstrs(pvmFn) {
			g := ci.Common().StaticCallee()
			if g == nil || !withdraws[g] {
				continue
			}
			inCase, below := false, false
			for _, a := range atomsOf(factsAtInstr(ci.(ssa.Instruction))) {
				if a.Kind == "eq" && a.Truth && a.Y != nil {
					if n, isC := constInt(a.Y); isC && n == diffV {
						inCase = true
					}
				}
				if a.Kind == "true" && !a.Truth {
					if cc, isCall := stripConv(a.X).(*ssa.Call); isCall && sameFunc(calleeObj(cc), overTh) {
						below = true
					}
				}
			}
			if inCase && below {
				ok = true
			}
		}
		c.Check(fname(pvmFn)+"#quorum-memory-withdrawn-with-the-weight", pvmFn.Pos(), ok, ifelse(ok, "in the double-voter case the recorded quorum is deleted when the remaining tally is below the threshold", "when a double voter's weight is taken out of its first block nothing withdraws the quorum recorded for that block: precommits 700+400+300 reach 1400 ≥ 1370, the 300 equivocate and X drops to 1100, certificate votes reach their quorum and judgeVoteCount(Certificate) commits on the remembered precommit quorum — the CommitEvent's precommit set weighs 1100"))
	}
	c03RoundE(c, c.W)
	c03RoundF(c, c.W)
}

func c03Q8(c *Ctx, w *World, pvm *ssa.Function, jvcObj *types.Func) {
	isField := func(v ssa.Value, owner, name string) bool {
		f, _ := loadedField(stripConv(v))
		return f != nil && f.Name() == name && ownerNameOfField(w, f) == owner
	}
	vmF := w.Field(uconPkg, "Voter", "votesMgr")
	var sites []ssa.Instruction
	var names []string
	for _, ci := range callsTo(pvm, jvcObj) {
		sites = append(sites, ci)
		names = append(names, "judgeVoteCount")
	}
	for _, fw := range fieldWrites(pvm) {
		if fw.Field == vmF {
			sites = append(sites, fw.Instr)
			names = append(names, "votesMgr-replaced")
		}
	}
	if len(sites) == 0 {
		c.Undecided(fname(pvm)+"#same-context", pvm.Pos(), "no call of judgeVoteCount in processVoteMsg")
		return
	}
	for i, site := range sites {
		nPaths, bad := 0, 0
		ok := pathsBetween(pvm, pvm.Blocks[0], site.Block(), 50000, func(blocks []*ssa.BasicBlock, facts []Fact) {
			atoms := atomsOf(facts)
			// decisions on the same comparison of the same operands made twice must agree
			type key struct {
				x, y string
			}
			seen := map[key]bool{}
			for _, a := range atoms {
				if a.Kind != "eq" || a.Y == nil {
					continue
				}
				if _, isP := stripConv(a.X).(*ssa.Parameter); !isP {
					continue
				}
				cv, isC := stripConv(a.Y).(*ssa.Const)
				if !isC || cv.Value == nil {
					continue
				}
				k := key{stripConv(a.X).Name(), cv.Value.ExactString()}
				if prev, has := seen[k]; has && prev != a.Truth {
					return // infeasible
				}
				seen[k] = a.Truth
			}
			nPaths++
			sameRound, sameIndex := false, false
			notBelow, notAbove := false, false
			for _, a := range atoms {
				if a.Kind == "cmp" && a.Y != nil {
					msgLeft := isField(a.X, "BlockHashWithVotes", "RoundIndex") && isField(a.Y, "Voter", "roundIndex")
					msgRight := isField(a.Y, "BlockHashWithVotes", "RoundIndex") && isField(a.X, "Voter", "roundIndex")
					if msgLeft || msgRight {
						op := a.Op
						if msgRight {
							op = map[token.Token]token.Token{token.LSS: token.GTR, token.GTR: token.LSS, token.LEQ: token.GEQ, token.GEQ: token.LEQ}[op]
						}
						// op relates message index (left) to voter index (right)
						if (op == token.LSS && !a.Truth) || (op == token.GEQ && a.Truth) {
							notBelow = true
						}
						if (op == token.GTR && !a.Truth) || (op == token.LEQ && a.Truth) {
							notAbove = true
						}
					}
				}
				if a.Kind != "eq" || !a.Truth {
					continue
				}
				if cc, isCall := stripConv(a.X).(*ssa.Call); isCall && calleeObj(cc) != nil && calleeObj(cc).Name() == "Cmp" {
					if n, isC := constInt(a.Y); isC && n == 0 {
						r, g := callRecv(cc), callArgs(cc)[0]
						if (isField(r, "BlockHashWithVotes", "Round") && isField(g, "Voter", "round")) || (isField(g, "BlockHashWithVotes", "Round") && isField(r, "Voter", "round")) {
							sameRound = true
						}
					}
				}
				if (isField(a.X, "Voter", "roundIndex") && isField(a.Y, "BlockHashWithVotes", "RoundIndex")) || (isField(a.Y, "Voter", "roundIndex") && isField(a.X, "BlockHashWithVotes", "RoundIndex")) {
					sameIndex = true
				}
			}
			if notBelow && notAbove {
				sameIndex = true
			}
			if !sameRound || !sameIndex {
				bad++
			}
		})
		c.sites += nPaths
		cons := fmt.Sprintf("%s#%s-only-in-own-round-and-index-%d", fname(pvm), names[i], i)
		if !ok {
			c.Undecided(cons, site.Pos(), "paths to the site could not be enumerated")
			continue
		}
		c.Check(cons, site.Pos(), bad == 0 && nPaths > 0, ifelse(bad == 0 && nPaths > 0, fmt.Sprintf("all %d paths tested message round == voter round and message index == voter index", nPaths), fmt.Sprintf("%d of %d paths reach %s without the message's round and round index having been tested equal to the voter's own: votes of another round index are counted and escalated in the voter's current context (a precommit without a prevote quorum of its index, or a commit whose votes belong to another index)", bad, nPaths, names[i])))
	}
}

func c03Q9(c *Ctx, w *World) {
	commit := w.Fn(uconPkg, "Voter", "commit")
	c.sawFunc(fname(commit))
	ceBlock := w.Field(uconPkg, "CommitEvent", "Block")
	getVotes := w.FuncObj(uconPkg, "VotesWrapper", "getVotes")
	// (1) commit: the Block of the event is a lookup under the hash whose votes are attached
	// (the assembly of the event may sit in a small helper of commit: its parameters stand for commit's arguments)
	fns := withSplitOffHelpers(w, commit)
	bindSplitOff(w, commit)
	var lookup *ssa.Call
	for _, fn := range fns {
		for _, fw := range fieldWrites(fn) {
			if fw.Field != ceBlock {
				continue
			}
			st, isSt := fw.Instr.(*ssa.Store)
			if !isSt {
				continue
			}
			v := bound(stripConv(st.Val))
			for i := 0; i < 8 && lookup == nil; i++ {
				switch x := v.(type) {
				case *ssa.Call:
					if _, isB := x.Call.Value.(*ssa.Builtin); !isB {
						lookup = x
					}
				case *ssa.Phi:
					if len(x.Edges) > 0 {
						v = bound(stripConv(x.Edges[0]))
						continue
					}
				case *ssa.UnOp:
					if al, isAl := x.X.(*ssa.Alloc); isAl && x.Op == token.MUL {
						for _, r := range *al.Referrers() {
							if s2, ok := r.(*ssa.Store); ok && s2.Addr == ssa.Value(al) {
								v = bound(stripConv(s2.Val))
							}
						}
						continue
					}
				}
				break
			}
		}
	}
	hashIdx := -1
	var hashParam *ssa.Parameter
	if lookup != nil {
		for i, a := range lookup.Call.Args {
			if p, ok := bound(stripConv(a)).(*ssa.Parameter); ok && p.Parent() == commit && ownerName(p.Type()) == "Hash" {
				if hashIdx < 0 {
					hashIdx, hashParam = i, p
				}
			}
		}
	}
	c.sites++
	okCommit := lookup != nil && hashParam != nil
	why := "the block of the CommitEvent is not the result of a lookup under one of commit's hash parameters"
	nVotes := 0
	if okCommit {
		for _, fn := range fns {
			for _, gv := range callsTo(fn, getVotes) {
				nVotes++
				found := false
				for _, a := range callArgs(gv) {
					if bound(stripConv(a)) == ssa.Value(hashParam) {
						found = true
					}
				}
				if !found {
					okCommit = false
					why = "the votes attached to the commit are not taken for the hash the block was looked up under (" + w.Pos(gv.Pos()) + ")"
				}
			}
		}
		if nVotes == 0 {
			okCommit = false
			why = "no getVotes call found in commit"
		}
	}
	if okCommit {
		c.Pass(fname(commit)+"#block-and-votes-of-one-hash", commit.Pos(), fmt.Sprintf("block = lookup(%s, …), %d getVotes(…, %s, …)", hashParam.Name(), nVotes, hashParam.Name()))
	} else {
		c.Fail(fname(commit)+"#block-and-votes-of-one-hash", commit.Pos(), why+": the header assembled from the commit carries signatures over another block's hash and is rejected by every verifier")
	}
	if !okCommit {
		return
	}
	// (2) every function of the lookup's signature in package ucon
	var sig *types.Signature
	if s, ok := lookup.Call.Value.Type().Underlying().(*types.Signature); ok {
		sig = s
	}
	if sig == nil {
		c.Undecided(fname(commit)+"#block-lookup-signature", lookup.Pos(), "the block lookup is not a call through a function value")
		return
	}
	// position of the hash among the lookup's declared parameters (a dynamic call has no receiver argument)
	pIdx := hashIdx
	var cands []*ssa.Function
	for _, fn := range w.FuncsIn(uconPkg) {
		if strings.HasSuffix(w.fileOf(fn.Pos()), "_test.go") || fn.Blocks == nil || fn.Synthetic != "" || fn.Parent() != nil {
			continue
		}
		fs := fn.Signature
		if fs.Params().Len() != sig.Params().Len() || fs.Results().Len() != sig.Results().Len() {
			continue
		}
		same := true
		for i := 0; i < fs.Params().Len(); i++ {
			if !types.Identical(fs.Params().At(i).Type(), sig.Params().At(i).Type()) {
				same = false
			}
		}
		for i := 0; i < fs.Results().Len(); i++ {
			if !types.Identical(fs.Results().At(i).Type(), sig.Results().At(i).Type()) {
				same = false
			}
		}
		if same {
			cands = append(cands, fn)
		}
	}
	isCand := func(g *ssa.Function) bool {
		for _, x := range cands {
			if x == g {
				return true
			}
		}
		return false
	}
	for _, fn := range cands {
		c.sites++
		c.sawFunc(fname(fn))
		off := 0
		if fn.Signature.Recv() != nil {
			off = 1
		}
		own := fn.Params[pIdx+off]
		bad := ""
		for _, b := range fn.Blocks {
			r, ok := b.Instrs[len(b.Instrs)-1].(*ssa.Return)
			if !ok || b == fn.Recover || len(r.Results) == 0 {
				continue
			}
			var check func(v ssa.Value, seen map[ssa.Value]bool) bool
			check = func(v ssa.Value, seen map[ssa.Value]bool) bool {
				v = stripConv(v)
				if seen[v] {
					return true
				}
				seen[v] = true
				switch x := v.(type) {
				case *ssa.Const:
					return x.IsNil()
				case *ssa.Phi:
					for _, e := range x.Edges {
						if !check(e, seen) {
							return false
						}
					}
					return true
				case *ssa.Extract:
					return check(x.Tuple, seen)
				case *ssa.Lookup:
					return stripConv(x.Index) == ssa.Value(own)
				case *ssa.UnOp:
					if x.Op == token.MUL {
						if al, isAl := x.X.(*ssa.Alloc); isAl {
							for _, rr := range *al.Referrers() {
								if st, isSt := rr.(*ssa.Store); isSt && st.Addr == ssa.Value(al) && !check(st.Val, seen) {
									return false
								}
							}
							return true
						}
					}
				case *ssa.Call:
					if g := x.Call.StaticCallee(); g != nil && isCand(g) {
						goff := 0
						if g.Signature.Recv() != nil {
							goff = 1
						}
						return stripConv(x.Call.Args[pIdx+goff]) == ssa.Value(own)
					}
				}
				return false
			}
			if !check(r.Results[0], map[ssa.Value]bool{}) && bad == "" {
				bad = w.Pos(r.Pos())
			}
		}
		c.Check(fname(fn)+"#returns-the-entry-of-the-asked-hash", fn.Pos(), bad == "", ifelse(bad == "", "every return is nil, the map entry under the asked hash, or a delegation with that hash", "the return at "+bad+" can hand back a block that is not the entry stored under the asked hash: a commit (or marked block) then carries a block nobody voted for together with the votes for another hash"))
	}
	// (3) the cache stores a block under its own hash
	blocksF := w.Field(uconPkg, "PriorityManager", "blocks")
	nUpd := 0
	for _, fn := range w.FuncsIn(uconPkg) {
		if strings.HasSuffix(w.fileOf(fn.Pos()), "_test.go") {
			continue
		}
		for _, b := range fn.Blocks {
			for _, in := range b.Instrs {
				mu, ok := in.(*ssa.MapUpdate)
				if !ok {
					continue
				}
				if f, _ := loadedField(stripConv(mu.Map)); f != blocksF {
					continue
				}
				nUpd++
				c.sites++
				okKey := false
				if kc, isCall := stripConv(mu.Key).(*ssa.Call); isCall {
					if o := calleeObj(kc); o != nil && o.Name() == "Hash" && recvName(o) == "Block" && samePath(callRecv(kc), mu.Value) {
						okKey = true
					}
				}
				c.Check(fmt.Sprintf("%s#block-cached-under-own-hash-%d", fname(fn), nUpd), mu.Pos(), okKey, ifelse(okKey, "blocks[b.Hash()] = b", "a block is cached under a key that is not its own hash: the lookup by voted hash returns another block"))
			}
		}
	}
	if nUpd == 0 {
		c.Undecided("consensus/ucon.PriorityManager#blocks-writes", token.NoPos, "no write to PriorityManager.blocks found")
	}
}

func c03Q7(c *Ctx, w *World) {
	uc := w.Fn(uconPkg, "Voter", "updateContext")
	c.sawFunc(fname(uc))
	riF := w.Field(uconPkg, "Voter", "roundIndex")
	var target *ssa.BasicBlock
	for _, fw := range fieldWrites(uc) {
		if fw.Field == riF {
			if target != nil {
				c.Undecided(fname(uc)+"#round-index-store", fw.Instr.Pos(), "more than one store of Voter.roundIndex")
				return
			}
			target = fw.Instr.Block()
		}
	}
	if target == nil {
		c.Undecided(fname(uc)+"#round-index-store", uc.Pos(), "the store of Voter.roundIndex was not found")
		return
	}
	isField := func(v ssa.Value, owner, name string) bool {
		f, _ := loadedField(stripConv(v))
		return f != nil && f.Name() == name && ownerNameOfField(w, f) == owner
	}
	for _, fn := range []string{"voteOver", "votesMgr"} {
		f := w.Field(uconPkg, "Voter", fn)
		stores := map[*ssa.BasicBlock]bool{}
		for _, fw := range fieldWrites(uc) {
			if fw.Field == f {
				stores[fw.Instr.Block()] = true
			}
		}
		nPaths, bad := 0, 0
		ok := pathsBetween(uc, uc.Blocks[0], target, 20000, func(blocks []*ssa.BasicBlock, facts []Fact) {
			nPaths++
			for _, b := range blocks {
				if stores[b] {
					return
				}
			}
			sameRound, sameIndex := false, false
			for _, a := range atomsOf(facts) {
				if a.Kind != "eq" || !a.Truth {
					continue
				}
				if cc, isCall := stripConv(a.X).(*ssa.Call); isCall && calleeObj(cc) != nil && calleeObj(cc).Name() == "Cmp" {
					if n, isC := constInt(a.Y); isC && n == 0 && isField(callRecv(cc), "Voter", "round") && isField(callArgs(cc)[0], "ContextChangeEvent", "Round") {
						sameRound = true
					}
				}
				if (isField(a.X, "Voter", "roundIndex") && isField(a.Y, "ContextChangeEvent", "RoundIndex")) || (isField(a.Y, "Voter", "roundIndex") && isField(a.X, "ContextChangeEvent", "RoundIndex")) {
					sameIndex = true
				}
			}
			if !sameRound || !sameIndex {
				bad++
			}
		})
		c.sites += nPaths
		if !ok {
			c.Undecided(fname(uc)+"#"+fn+"-reset", uc.Pos(), "paths to the round-index store could not be enumerated")
			continue
		}
		c.Check(fname(uc)+"#"+fn+"-reset", uc.Pos(), bad == 0 && len(stores) > 0, ifelse(bad == 0 && len(stores) > 0, fmt.Sprintf("all %d paths to the new round index either replace %s or keep round and index", nPaths, fn), fmt.Sprintf("%d of %d paths change the round or round index and keep the old %s: quorum flags / votes counted in one round index count towards escalation in another, so a commit can be announced with precommits that are below quorum in its own index", bad, nPaths, fn)))
	}
}

// siteOrdinal gives a line-free discriminator for several similar sites in one
// function: the ordinal among calls of the same kind in block order.
func siteOrdinal(fn *ssa.Function, site ssa.CallInstruction, what string) string {
	n := 0
	for _, ci := range callInstrs(fn) {
		if ci == site {
			return fmt.Sprintf("%d", n)
		}
		if o, p := calleeObj(ci), calleeObj(site); o != nil && p != nil && sameFunc(o, p) {
			n++
		}
	}
	return "?"
}

// boolFalseImpliesErr: fn returns (bool, error) and whenever result 0 is not
// constant true, result 1 is a definite failure.
func boolFalseImpliesErr(fn *ssa.Function) bool {
	for _, b := range fn.Blocks {
		r, ok := b.Instrs[len(b.Instrs)-1].(*ssa.Return)
		if !ok || len(r.Results) != 2 || b == fn.Recover {
			continue
		}
		r0 := stripConv(r.Results[0])
		if cv, ok := r0.(*ssa.Const); ok && cv.Value != nil && cv.Value.Kind() == constant.Bool && constant.BoolVal(cv.Value) {
			continue
		}
		// result 0 may be false: result 1 must be a failure
		switch x := stripConv(r.Results[1]).(type) {
		case *ssa.Call:
			if !isErrorCtor(x) {
				return false
			}
		default:
			return false
		}
	}
	return true
}

func c03Q2(c *Ctx, w *World, pvm *ssa.Function, jvcObj *types.Func) {
	name := fname(pvm)
	var newVotes []ssa.CallInstruction
	for _, ci := range callInstrs(pvm) {
		if o := calleeObj(ci); o != nil && o.Name() == "newVote" && recvName(o) == "VotesWrapper" {
			newVotes = append(newVotes, ci)
		}
	}
	getAddr := callsTo(pvm, w.FuncObj(uconPkg, "Voter", "getAddrFromVote"))
	var stakeCall, sortCall ssa.CallInstruction
	for _, ci := range callInstrs(pvm) {
		if f := callViaField(ci); f != nil {
			switch f.Name() {
			case "getStakeFn":
				stakeCall = ci
			case "verifySortitionFn":
				sortCall = ci
			}
		}
	}
	var avi ssa.CallInstruction
	for _, ci := range callInstrs(pvm) {
		if o := calleeObj(ci); o != nil && o.Name() == "addrVoteInfo" {
			avi = ci
		}
	}
	if len(newVotes) != 1 || len(getAddr) != 1 || stakeCall == nil || sortCall == nil || avi == nil {
		c.Undecided(name+"#count-gates", pvm.Pos(), fmt.Sprintf("anchors: newVote=%d getAddrFromVote=%d getStakeFn=%v verifySortitionFn=%v addrVoteInfo=%v", len(newVotes), len(getAddr), stakeCall != nil, sortCall != nil, avi != nil))
		return
	}
	nv := newVotes[0]
	atoms := atomsOf(factsAtInstr(nv))
	notVoted := constOf(w, uconPkg, "addrNotVoted")
	sigOK := hasErrNil(atoms, getAddr[0])
	stakeOK := hasErrNil(atoms, stakeCall)
	sortOK := hasErrNil(atoms, sortCall)
	senderOK, firstOK := false, false
	for _, a := range atoms {
		if a.Kind != "eq" || !a.Truth {
			continue
		}
		for _, pr := range [][2]ssa.Value{{a.X, a.Y}, {a.Y, a.X}} {
			if resultOf(pr[0], getAddr[0], 1) {
				if f, _ := loadedField(stripConv(pr[1])); f != nil && f.Name() == "addr" {
					senderOK = true
				}
			}
			if resultOf(pr[0], avi, 0) {
				if cv, ok := stripConv(pr[1]).(*ssa.Const); ok && cv.Value != nil && constant.Compare(constant.ToInt(cv.Value), token.EQL, constant.ToInt(notVoted)) {
					firstOK = true
				}
			}
		}
	}
	c.sites += 5
	c.Check(name+"#count-after-signature", nv.Pos(), sigOK, ifelse(sigOK, "dominated by a successful signer recovery", "a vote is counted without its signature having been checked"))
	c.Check(name+"#count-after-sender-match", nv.Pos(), senderOK, ifelse(senderOK, "dominated by signer == envelope sender", "a vote is counted although its signer was not compared with the sender of the message"))
	c.Check(name+"#count-after-stake-lookup", nv.Pos(), stakeOK, ifelse(stakeOK, "dominated by a successful look-back stake lookup (online member)", "a vote is counted without the look-back membership/stake lookup having succeeded"))
	c.Check(name+"#count-after-sortition", nv.Pos(), sortOK, ifelse(sortOK, "dominated by a successful sortition verification", "a vote is counted without its sortition credential having been verified"))
	c.Check(name+"#count-first-vote-only", nv.Pos(), firstOK, ifelse(firstOK, "dominated by addrVoteInfo == addrNotVoted", "a vote is counted although the sender already voted (duplicates or equivocation carry weight)"))
	// the public key verified is the recovered signer's; the address counted is the recovered one
	pkOK := resultOf(callArgsDyn(sortCall)[0], getAddr[0], 0)
	addrOK := resultOf(callArgs(nv)[3], getAddr[0], 1) && resultOf(callArgsDyn(stakeCall)[1], getAddr[0], 1)
	c.Check(name+"#verified-key-is-signer", sortCall.Pos(), pkOK && addrOK, ifelse(pkOK && addrOK, "sortition is verified under the recovered key and the weight is booked on the recovered address", "the key whose sortition is verified, the address looked up and the address counted are not all the recovered signer"))
	// weight verified == weight stored
	var verifiedVotes, storedVotes ssa.Value
	for _, b := range pvm.Blocks {
		for _, in := range b.Instrs {
			st, ok := in.(*ssa.Store)
			if !ok {
				continue
			}
			fa, ok := st.Addr.(*ssa.FieldAddr)
			if !ok || fieldOfAddr(fa).Name() != "Votes" {
				continue
			}
			switch ownerName(fa.X.Type()) {
			case "SortitionData":
				verifiedVotes = st.Val
			case "SingleVote":
				storedVotes = st.Val
			}
		}
	}
	wOK := verifiedVotes != nil && storedVotes != nil && samePath(verifiedVotes, storedVotes)
	c.Check(name+"#weight-counted-is-weight-verified", nv.Pos(), wOK, ifelse(wOK, "SingleVote.Votes and SortitionData.Votes are the same value", "the weight stored for counting is not the weight whose sortition was verified"))
	// judgeVoteCount consumes that newVote
	for _, jc := range callsTo(pvm, jvcObj) {
		a := callArgs(jc)
		na := callArgs(nv)
		ok := resultOf(a[1], nv, 1) && stripConv(a[0]) == stripConv(na[2]) && samePath(a[3], na[5]) && resultOf(a[2], stakeCall, 2) && gatedByBool(jc, nv, 0, true)
		c.Check(name+"#judge-consumes-count", jc.Pos(), ok, ifelse(ok, "judges (kind, total, threshold, block) of the vote just added", "judgeVoteCount is called with a kind, total, threshold or block hash that is not the one of the vote just counted"))
	}
}

// callArgsDyn: arguments of a dynamic call through a function value.
func callArgsDyn(ci ssa.CallInstruction) []ssa.Value { return ci.Common().Args }

func c03Q4(c *Ctx, w *World) {
	avi := w.Fn(uconPkg, "VoteSta", "addrVoteInfo")
	nv := w.Fn(uconPkg, "VoteSta", "newVote")
	c.sawFunc(fname(avi))
	c.sawFunc(fname(nv))
	dv := w.Field(uconPkg, "AddrVoteStatus", "DoubleVoted")
	vc := w.Field(uconPkg, "VoteSta", "voteCounts")
	vi := w.Field(uconPkg, "VoteSta", "votesInfo")
	av := w.Field(uconPkg, "VoteSta", "addressVotes")
	var flag ssa.Instruction
	for _, fw := range fieldWrites(avi) {
		if fw.Field == dv {
			flag = fw.Instr
		}
	}
	if flag == nil {
		c.Undecided(fname(avi)+"#double-vote", avi.Pos(), "no store to DoubleVoted")
		return
	}
	subOK, delOK := false, false
	for _, fw := range fieldWrites(avi) {
		if fw.Field == vc && fw.Kind == "mapupdate" {
			mu := fw.Instr.(*ssa.MapUpdate)
			if b, ok := mu.Value.(*ssa.BinOp); ok && b.Op == token.SUB && onlyNilGuardBetween(flag, mu) {
				if f, _ := loadedField(b.Y); f != nil && f.Name() == "Votes" {
					subOK = true
				}
			}
		}
	}
	for _, ci := range callInstrs(avi) {
		if bi, ok := ci.Common().Value.(*ssa.Builtin); ok && bi.Name() == "delete" && onlyNilGuardBetween(flag, ci) {
			if derivesFrom(ci.Common().Args[0], func(v ssa.Value) bool { f, _ := loadedField(v); return f == vi }) {
				delOK = true
			}
		}
	}
	c.sites += 2
	c.Check(fname(avi)+"#equivocator-weight-removed", flag.Pos(), subOK && delOK, ifelse(subOK && delOK, "flag, weight subtraction and vote deletion on the same paths (modulo the nil guard of the stored vote)", fmt.Sprintf("a sender is flagged as double voter without removing its earlier weight (subtracted=%v, deleted=%v): its first vote keeps counting", subOK, delOK)))
	// newVote: weight added only under first-vote, with the address recorded
	for _, fw := range fieldWrites(nv) {
		if fw.Field != vc || fw.Kind != "mapupdate" {
			continue
		}
		mu := fw.Instr.(*ssa.MapUpdate)
		c.sites++
		first, recorded := false, false
		for _, a := range atomsOf(factsAtInstr(mu)) {
			if a.Kind == "isnil" && a.Truth {
				if lk, ok := stripConv(a.X).(*ssa.Lookup); ok {
					if f, _ := loadedField(lk.X); f == av {
						first = true
						for _, fw2 := range fieldWrites(nv) {
							if fw2.Field == av && fw2.Kind == "mapupdate" && samePath(fw2.Instr.(*ssa.MapUpdate).Key, lk.Index) && passedBefore(mu, []ssa.Instruction{fw2.Instr}) {
								recorded = true
							}
						}
					}
				}
			}
		}
		addsVotes := false
		if b, ok := mu.Value.(*ssa.BinOp); ok && b.Op == token.ADD {
			if f, _ := loadedField(b.Y); f != nil && f.Name() == "Votes" {
				addsVotes = true
			}
		}
		ok := first && recorded && addsVotes
		c.Check(fname(nv)+"#weight-added-once", mu.Pos(), ok, ifelse(ok, "added under addressVotes[address]==nil together with recording the address", fmt.Sprintf("weight is added without the first-vote discipline (first=%v recorded=%v adds-vote-weight=%v)", first, recorded, addsVotes)))
	}
	// no other writer of voteCounts
	for _, fn := range w.FuncsIn(uconPkg) {
		for _, fw := range fieldWrites(fn) {
			if fw.Field != vc || fw.Kind != "mapupdate" {
				continue
			}
			ok := fn == avi || fn == nv
			c.Check(fname(fn)+"#writes-voteCounts", fw.Instr.Pos(), ok, ifelse(ok, "tabled writer of the per-block weight", "a new function changes the counted weight per block"))
		}
	}
}

// onlyNilGuardBetween: b executes only after a, and the only branch conditions
// that separate them are non-nil tests.
func onlyNilGuardBetween(a, b ssa.Instruction) bool {
	if !instrDominates(a, b) {
		return false
	}
	fa := map[ssa.Value]bool{}
	for _, f := range factsAtRaw(a.Block()) {
		fa[f.Cond] = true
	}
	for _, f := range factsAtRaw(b.Block()) {
		if fa[f.Cond] {
			continue
		}
		as := atomsOf([]Fact{f})
		if len(as) != 1 || as[0].Kind != "isnil" || as[0].Truth {
			return false
		}
	}
	return true
}

// payloadShape flattens nested appends into the sequence of leaf kinds.
func payloadShape(v ssa.Value) []string {
	v = stripConv(v)
	switch x := v.(type) {
	case *ssa.Call:
		if bi, ok := x.Call.Value.(*ssa.Builtin); ok && bi.Name() == "append" {
			var out []string
			for _, a := range x.Call.Args {
				out = append(out, payloadShape(a)...)
			}
			return out
		}
		if o := calleeObj(x); o != nil {
			switch {
			case o.Name() == "Bytes" && recvName(o) == "Hash":
				return []string{"hash"}
			case o.Name() == "Bytes" && recvName(o) == "Int":
				return []string{"bigint-bytes"}
			case o.Name() == "uint32ToBytes":
				return []string{"u32be"}
			case o.Name() == "int8ToBytes":
				return []string{"u8"}
			case o.Name() == "PutUint32" || o.Name() == "AppendUint32":
				return []string{"u32be"}
			}
			return []string{"call:" + o.Name()}
		}
	case *ssa.Slice:
		return payloadShape(x.X)
	case *ssa.Const:
		if x.IsNil() {
			return nil
		}
	case *ssa.UnOp:
		if f, _ := loadedField(x); f != nil {
			if f.Name() == "headerHash" {
				return []string{"hash"}
			}
			return []string{"field:" + f.Name()}
		}
	case *ssa.Alloc:
		// a local [4]byte buffer filled by PutUint32
		for _, r := range *x.Referrers() {
			if sl, ok := r.(*ssa.Slice); ok {
				for _, r2 := range *sl.Referrers() {
					if ci, ok := r2.(ssa.CallInstruction); ok {
						if o := calleeObj(ci); o != nil && o.Name() == "PutUint32" {
							return []string{"u32be"}
						}
					}
				}
			}
		}
	}
	return []string{fmt.Sprintf("?%T", v)}
}

func c03Q5(c *Ctx, w *World) {
	want := "hash,bigint-bytes,u32be"
	type site struct {
		fn   *ssa.Function
		pick func(fn *ssa.Function) ssa.Value
	}
	argOf := func(callee string, idx int) func(fn *ssa.Function) ssa.Value {
		return func(fn *ssa.Function) ssa.Value {
			for _, ci := range callInstrs(fn) {
				if o := calleeObj(ci); o != nil && o.Name() == callee {
					a := callArgs(ci)
					if idx < len(a) {
						return a[idx]
					}
				}
			}
			return nil
		}
	}
	sites := []site{
		{w.Fn(uconPkg, "Voter", "signVote"), argOf("SignVote", 2)},
		{w.Fn(uconPkg, "Voter", "getAddrFromVote"), argOf("GetSignaturePublicKey", 0)},
		{w.Fn(uconPkg, "Server", "verifyVotes"), argOf("VerifyAggregatedOne", 1)},
	}
	for _, s := range sites {
		c.sawFunc(fname(s.fn))
		v := s.pick(s.fn)
		if v == nil {
			c.Undecided(fname(s.fn)+"#payload-layout", s.fn.Pos(), "payload operand not found")
			continue
		}
		got := strings.Join(payloadShape(v), ",")
		c.sites++
		c.Check(fname(s.fn)+"#payload-layout", s.fn.Pos(), got == want, ifelse(got == want, "layout "+got, "payload layout is "+got+", the other sites use "+want+": votes signed here do not verify there"))
	}
	// the evidence check in staking
	pds := w.Fn("staking", "Staking", "processDoubleSignV5")
	c.sawFunc(fname(pds))
	var shapes []string
	for _, fn := range withClosures(pds) {
		for _, ci := range callInstrs(fn) {
			if o := calleeObj(ci); o != nil && o.Name() == "Verify" && len(callArgs(ci)) >= 1 {
				for _, a := range callArgs(ci) {
					sh := strings.Join(payloadShape(a), ",")
					if strings.Contains(sh, "u32be") || strings.Contains(sh, "hash") {
						shapes = append(shapes, sh)
					}
				}
			}
		}
	}
	ok := len(shapes) > 0
	for _, sh := range shapes {
		if sh != want {
			ok = false
		}
	}
	c.Check(fname(pds)+"#payload-layout", pds.Pos(), ok, ifelse(ok, "layout "+want, "evidence signatures are checked over layout ["+strings.Join(shapes, " | ")+"], votes are signed over "+want))
}

func c03Q6(c *Ctx, w *World, pvm *ssa.Function, jvcObj *types.Func) {
	gl := w.Fn(uconPkg, "Server", "getLookbackStakeInfo")
	c.sawFunc(fname(gl))
	ok := true
	why := ""
	n := 0
	for _, b := range gl.Blocks {
		r, isR := b.Instrs[len(b.Instrs)-1].(*ssa.Return)
		if !isR || b == gl.Recover || len(r.Results) < 3 {
			continue
		}
		n++
		for _, s := range w.sourcesOf(r.Results[2], 0, nil) {
			switch {
			case s.Kind == "const", isParamsField(s):
			default:
				ok = false
				why = s.String()
			}
		}
	}
	c.Check(fname(gl)+"#threshold-result", gl.Pos(), ok && n > 0, ifelse(ok, "every returned threshold is a protocol parameter (or zero on failure)", "the live quorum base derives from "+why))
	// StepView.Threshold stores
	th := w.Field(uconPkg, "StepView", "Threshold")
	for _, fn := range w.FuncsIn(uconPkg) {
		if strings.HasSuffix(w.fileOf(fn.Pos()), "_test.go") {
			continue
		}
		i := 0
		for _, fw := range fieldWrites(fn) {
			if fw.Field != th {
				continue
			}
			st := fw.Instr.(*ssa.Store)
			good := true
			bad := ""
			for _, s := range w.sourcesOf(st.Val, 0, nil) {
				switch {
				case s.Kind == "const", isParamsField(s):
				case s.Kind == "call" && callViaField(s.Call) != nil && callViaField(s.Call).Name() == "getLookBackStake":
				default:
					good = false
					bad = s.String()
				}
			}
			c.Check(fmt.Sprintf("%s#StepView.Threshold-%d", fname(fn), i), st.Pos(), good, ifelse(good, "from the look-back stake info", "the threshold kept in the step view derives from "+bad))
			i++
		}
	}
	// thresholds judged
	for _, fn := range w.FuncsIn(uconPkg) {
		if strings.HasSuffix(w.fileOf(fn.Pos()), "_test.go") {
			continue
		}
		for _, jc := range callsTo(fn, jvcObj) {
			good := true
			bad := ""
			for _, s := range w.sourcesOf(callArgs(jc)[2], 0, nil) {
				switch {
				case s.Kind == "const", isParamsField(s):
				case s.Kind == "field" && s.Field == th:
				case s.Kind == "call" && callViaField(s.Call) != nil && callViaField(s.Call).Name() == "getStakeFn":
				default:
					good = false
					bad = s.String()
				}
			}
			c.Check(outerName(fname(fn))+"#judged-threshold", jc.Pos(), good, ifelse(good, "from the step view or the stake lookup", "the quorum base judged derives from "+bad))
		}
	}
}

func c03Variants() []Variant {
	v := "consensus/ucon/voter.go"
	return []Variant{
		{Name: "commit-before-quorum", File: v, Old: "	r := OverThreshold(count, threshold, voteType != Certificate)\n", New: "	if voteType == Precommit && !v.shouldCert {\n		v.commit(blockHash, priority)\n	}\n	r := OverThreshold(count, threshold, voteType != Certificate)\n", Rule: "C03.Q1", Construct: "commit"},
		{Name: "judge-single-vote-weight", File: v, Old: "v.judgeVoteCount(voteType, totalCount, threshold, msg.BlockHash, msg.Priority, validatorType)", New: "v.judgeVoteCount(voteType, vote.Votes, threshold, msg.BlockHash, msg.Priority, validatorType)", Rule: "C03.Q1", Construct: "judged-count"},
		{Name: "skip-sortition", File: v, Old: "	if err == errStaleSortition {\n		return nil, false\n	}\n	if err != nil {\n		logging.Error(\"verifyPriority msgPriorityProposal failed\", \"err\", err)\n		return err, true\n	}\n\n	if status == msgFuture", New: "	if err == errStaleSortition {\n		return nil, false\n	}\n\n	if status == msgFuture", Rule: "C03.Q2", Construct: "count-after-sortition"},
		{Name: "skip-sender-check", File: v, Old: "	if addr != ev.Msg.addr {", New: "	if false && addr != ev.Msg.addr {", Rule: "C03.Q2", Construct: "count-after-sender-match"},
		{Name: "stale-vote-accepted", File: "consensus/ucon/sortition_verifier.go", Old: "			return errStaleSortition", New: "			return nil", Rule: "C03.Q3", Construct: "verifySortition"},
		{Name: "keep-double-voter-weight", File: "consensus/ucon/votes_mgr.go", Old: "			v.voteCounts[priorityAndHash.Hash] -= vote.Votes\n", New: "", Rule: "C03.Q4", Construct: "equivocator-weight-removed"},
		{Name: "payload-without-index", File: v, Old: "	payload := append(blockHash.Bytes(), append(v.round.Bytes(), uint32ToBytes(v.roundIndex)...)...)\n\n	// for certificate vote, use the parameters", New: "	payload := append(blockHash.Bytes(), v.round.Bytes()...)\n\n	// for certificate vote, use the parameters", Rule: "C03.Q5", Construct: "signVote"},
	}
}

// isFalseStore: a map update that stores the constant false.
func isFalseStore(in ssa.Instruction) bool {
	mu, ok := in.(*ssa.MapUpdate)
	if !ok {
		return false
	}
	cv, ok := mu.Value.(*ssa.Const)
	return ok && cv.Value != nil && cv.Value.String() == "false"
}

// c03RoundE: Q14 (a recycled vote container starts empty for every kind) and Q15 (a BLS vote counts only verified).
func c03RoundF(c *Ctx, w *World) {
	staT := w.Named(uconPkg, "VoteSta")
	st := w.Struct(uconPkg, "VoteSta")

	c.Rule("C03.Q16", "EXHAUSTIVE", "a recycled vote container starts empty in every table: VoteSta.clear gives each map field of VoteSta (votes per hash, tally per hash, per-sender records) a fresh map or empties it entry by entry — a table left out (the tally) survives from round index i into i+4, where quorum−k fresh prevotes then escalate a block that had k votes four indexes earlier, and the commit carries only the fresh votes")
	c.Min(1)
	{
		cl := w.Fn(uconPkg, "VoteSta", "clear")
		c.sawFunc(fname(cl))
		handled := map[string]bool{}
		for _, in := range allInstrs(cl) {
			switch x := in.(type) {
			case *ssa.Store:
				if fa, ok := x.Addr.(*ssa.FieldAddr); ok && types.Identical(deref(fa.X.Type()), staT) {
					if _, isMk := stripConvNoBind(x.Val).(*ssa.MakeMap); isMk {
						if f := fieldOfAddr(fa); f != nil {
							handled[f.Name()] = true
						}
					}
				}
			case *ssa.Call:
				if b, ok := x.Call.Value.(*ssa.Builtin); ok && b.Name() == "delete" && inLoopBlock(x.Block()) {
					if f, base := loadedField(stripConvNoBind(x.Call.Args[0])); f != nil && base != nil && types.Identical(deref(base.Type()), staT) {
						handled[f.Name()] = true
					}
				}
			}
		}
		var missing []string
		n := 0
		for i := 0; i < st.NumFields(); i++ {
			f := st.Field(i)
			if _, isMap := f.Type().Underlying().(*types.Map); isMap {
				n++
				if !handled[f.Name()] {
					missing = append(missing, f.Name())
				}
			}
		}
		c.sites++
		c.Check(fname(cl)+"#empties-every-table", cl.Pos(), n > 0 && len(missing) == 0, ifelse(n > 0 && len(missing) == 0, fmt.Sprintf("all %d tables are replaced or emptied", n), "clear leaves "+strings.Join(missing, ", ")+" as it was: the recycled container starts a new round index with old entries in that table"))
	}

	c.Rule("C03.Q17", "OWNERSHIP", "the vote set attached to a commit is the set that reached the quorum: VoteSta.getVotesInfo hands out a map of its own (a new map filled by copying), never the live per-hash table — the live table loses an equivocator's vote (addrVoteInfo) and gains later votes (newVote) between the moment Voter.commit posts the event and the moment Server.commit packs the votes, and a header sealed with the shrunken set is below the quorum for every verifier")
	c.Min(1)
	{
		gv := w.Fn(uconPkg, "VoteSta", "getVotesInfo")
		c.sawFunc(fname(gv))
		bad := ""
		n := 0
		for _, b := range gv.Blocks {
			ret, isRet := b.Instrs[len(b.Instrs)-1].(*ssa.Return)
			if !isRet || len(ret.Results) == 0 || b == gv.Recover {
				continue
			}
			n++
			seen := map[ssa.Value]bool{}
			var fresh func(v ssa.Value) bool
			fresh = func(v ssa.Value) bool {
				v = stripConvNoBind(v)
				if seen[v] {
					return true
				}
				seen[v] = true
				switch x := v.(type) {
				case *ssa.MakeMap:
					return true
				case *ssa.Phi:
					for _, e := range x.Edges {
						if !fresh(e) {
							return false
						}
					}
					return true
				case *ssa.Extract:
					return fresh(x.Tuple)
				case *ssa.Call:
					if g := x.Call.StaticCallee(); g != nil && g.Blocks != nil && g.Pkg == gv.Pkg && len(seen) < 40 {
						// a constructor or copying helper: all its returns are new maps
						okAll := true
						for _, gb := range g.Blocks {
							if gr, isR := gb.Instrs[len(gb.Instrs)-1].(*ssa.Return); isR && len(gr.Results) > 0 && gb != g.Recover {
								if !fresh(gr.Results[0]) {
									okAll = false
								}
							}
						}
						return okAll
					}
				}
				return false
			}
			rv := ret.Results[0]
			// a result spilled to a variable because of the deferred unlock
			if u, isU := rv.(*ssa.UnOp); isU && u.Op == token.MUL {
				if al, isAl := u.X.(*ssa.Alloc); isAl {
					for _, in := range b.Instrs {
						if stv, isSt := in.(*ssa.Store); isSt && stv.Addr == ssa.Value(al) {
							rv = stv.Val
						}
					}
				}
			}
			if !fresh(rv) {
				bad = w.Pos(ret.Pos())
			}
		}
		c.sites++
		c.Check(fname(gv)+"#hands-out-a-copy", gv.Pos(), bad == "" && n > 0, ifelse(bad == "" && n > 0, "every return hands out a new map", "the return at "+bad+" hands out the live per-hash vote table: the vote set of an announced commit changes when a counted sender equivocates afterwards"))
	}
}

func c03RoundE(c *Ctx, w *World) {
	c.Rule("C03.Q14", "EXHAUSTIVE", "quorums are counted per round index: the vote containers are recycled (VotesWrapperList keeps MaxVoteCacheCount of them), and clearVotesInfo, which re-targets one to a new (round, index), reads every *VoteSta field of VotesManager and clears it — a kind left out keeps the tallies and per-sender records of index i in index i+4, old weight counts towards the new quorum and the packed vote set mixes signatures of two indexes")
	c.Min(1)
	{
		cl := w.Fn(uconPkg, "VotesManager", "clearVotesInfo")
		c.sawFunc(fname(cl))
		st := w.Struct(uconPkg, "VotesManager")
		staT := w.Named(uconPkg, "VoteSta")
		loaded := map[string]bool{}
		scope := []*ssa.Function{cl}
		for _, ci := range callInstrs(cl) {
			if g := ci.Common().StaticCallee(); g != nil && g.Pkg == cl.Pkg && g.Blocks != nil {
				scope = append(scope, g) // a helper that lists or clears the containers
			}
		}
		var instrs []ssa.Instruction
		for _, g := range scope {
			instrs = append(instrs, allInstrs(g)...)
		}
		for _, in := range instrs {
			if fa, ok := in.(*ssa.FieldAddr); ok && types.Identical(deref(fa.X.Type()), w.Named(uconPkg, "VotesManager")) {
				if f := fieldOfAddr(fa); f != nil {
					for _, r := range *fa.Referrers() {
						if u, isU := r.(*ssa.UnOp); isU && u.Op == token.MUL {
							loaded[f.Name()] = true
						}
					}
				}
			}
		}
		clears := 0
		for _, g := range scope {
			for _, ci := range callInstrs(g) {
				if o := calleeObj(ci); o != nil && o.Name() == "clear" && recvName(o) == "VoteSta" {
					clears++
				}
			}
		}
		var missing []string
		n := 0
		for i := 0; i < st.NumFields(); i++ {
			f := st.Field(i)
			if types.Identical(deref(f.Type()), staT) {
				n++
				if !loaded[f.Name()] {
					missing = append(missing, f.Name())
				}
			}
		}
		c.sites++
		if n == 0 {
			c.Undecided(fname(cl)+"#clears-every-kind", cl.Pos(), "no *VoteSta field found in VotesManager")
		} else {
			ok := len(missing) == 0 && clears > 0
			c.Check(fname(cl)+"#clears-every-kind", cl.Pos(), ok, ifelse(ok, fmt.Sprintf("all %d vote-kind containers are read and cleared", n), "clearVotesInfo leaves "+strings.Join(missing, ", ")+" untouched: a recycled container starts the new round index with the old votes of that kind"))
		}
	}

	c.Rule("C03.Q15", "SAME-VALUE", "weight only from verified credentials: with BLS enabled getAddrFromVote is the only place where the signature of an incoming vote is checked — every return reached after pk.Verify(payload, sig) hands that call's result to the caller as the error (a shadowed variable that only logs the failure returns nil: any decodable signature is then counted, the node commits on a quorum that is not there and every verifier rejects the packed aggregate)")
	c.Min(1)
	{
		ga := w.Fn(uconPkg, "VoteBLSMgr", "getAddrFromVote")
		c.sawFunc(fname(ga))
		var ver *ssa.Call
		for _, ci := range callInstrs(ga) {
			if o := calleeObj(ci); o != nil && o.Name() == "Verify" && o.Pkg() != nil && o.Pkg().Path() == full("bls") {
				if cc, ok := ci.(*ssa.Call); ok {
					ver = cc
				}
			}
		}
		c.sites++
		if ver == nil {
			c.Fail(fname(ga)+"#verify-result-returned", ga.Pos(), "getAddrFromVote no longer verifies the vote's BLS signature (no PublicKey.Verify call)")
		} else {
			bad := ""
			n := 0
			for _, b := range ga.Blocks {
				ret, isRet := b.Instrs[len(b.Instrs)-1].(*ssa.Return)
				if !isRet || !instrDominates(ver, ret) {
					continue
				}
				n++
				seen := map[ssa.Value]bool{}
				var leaf func(v ssa.Value) bool
				leaf = func(v ssa.Value) bool {
					v = stripConvNoBind(v)
					if seen[v] {
						return true
					}
					seen[v] = true
					if v == ssa.Value(ver) {
						return true
					}
					if ph, ok := v.(*ssa.Phi); ok {
						for _, e := range ph.Edges {
							if !leaf(e) {
								return false
							}
						}
						return true
					}
					// a local variable: every store into it
					if u, ok := v.(*ssa.UnOp); ok && u.Op == token.MUL {
						if al, isAl := u.X.(*ssa.Alloc); isAl {
							k := 0
							for _, r := range *al.Referrers() {
								if stv, isSt := r.(*ssa.Store); isSt && stv.Addr == ssa.Value(al) && instrDominates(ver, stv) {
									k++
									if !leaf(stv.Val) {
										return false
									}
								}
							}
							return k > 0
						}
					}
					// a freshly made non-nil error
					if _, ok := v.(*ssa.MakeInterface); ok {
						return true
					}
					if cc, ok := v.(*ssa.Call); ok {
						if o := calleeObj(cc); o != nil && (o.Name() == "Errorf" || o.Name() == "New") {
							return true
						}
					}
					return false
				}
				rv := ret.Results[len(ret.Results)-1]
				okRet := leaf(rv)
				if cv, isC := stripConvNoBind(rv).(*ssa.Const); isC && cv.IsNil() {
					// an explicit nil: only where the check is known to have succeeded
					okRet = false
					for _, a := range atomsOf(factsAt(b)) {
						if a.Kind == "isnil" && stripConvNoBind(a.X) == ssa.Value(ver) && a.Truth {
							okRet = true
						}
					}
				}
				if !okRet {
					bad = w.Pos(ret.Pos())
				}
			}
			ok := bad == "" && n > 0
			c.Check(fname(ga)+"#verify-result-returned", ver.Pos(), ok, ifelse(ok, "the result of PublicKey.Verify is what the caller gets", "the return at "+bad+" is reached after the signature check but does not hand its result to the caller: a vote with a wrong signature is accepted and counted"))
		}
	}
}

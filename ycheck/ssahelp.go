package main

import (
	"fmt"
	"go/constant"
	"go/token"
	"go/types"
	"strings"

	"golang.org/x/tools/go/ssa"
)

// ---------------------------------------------------------------- calls

func callInstrs(fn *ssa.Function) []ssa.CallInstruction {
	var out []ssa.CallInstruction
	for _, b := range fn.Blocks {
		for _, in := range b.Instrs {
			if ci, ok := in.(ssa.CallInstruction); ok {
				out = append(out, ci)
			}
		}
	}
	return out
}

// calleeObj returns the declared function or (interface) method a call
// resolves to through type information, or nil for dynamic calls of function
// values and built-ins.
func calleeObj(ci ssa.CallInstruction) *types.Func {
	cc := ci.Common()
	if cc.IsInvoke() {
		return cc.Method
	}
	if fn := cc.StaticCallee(); fn != nil {
		if o, ok := fn.Object().(*types.Func); ok {
			return o
		}
		// bound method / thunk wrappers
		if fn.Synthetic != "" && fn.Object() == nil {
			return nil
		}
	}
	return nil
}

func staticCallee(ci ssa.CallInstruction) *ssa.Function {
	fn := ci.Common().StaticCallee()
	return fn
}

// sameFunc compares two function objects modulo generic instantiation/origin.
func sameFunc(a, b *types.Func) bool {
	if a == nil || b == nil {
		return false
	}
	return a.Origin() == b.Origin()
}

func callsTo(fn *ssa.Function, obj *types.Func) []ssa.CallInstruction {
	var out []ssa.CallInstruction
	for _, ci := range callInstrs(fn) {
		if sameFunc(calleeObj(ci), obj) {
			out = append(out, ci)
		}
	}
	return out
}

// callsToAny finds calls whose callee is one of objs.
func callsToAny(fn *ssa.Function, objs ...*types.Func) []ssa.CallInstruction {
	var out []ssa.CallInstruction
	for _, ci := range callInstrs(fn) {
		co := calleeObj(ci)
		for _, o := range objs {
			if sameFunc(co, o) {
				out = append(out, ci)
				break
			}
		}
	}
	return out
}

// callsByName finds calls to a method or function with the given name whose
// receiver (for methods) or package (for functions) matches recvOrPkg
// ("" = any). Used only for callees outside the repository or for interface
// methods with several declaring interfaces; repository anchors use objects.
func callsByName(fn *ssa.Function, recvOrPkg, name string) []ssa.CallInstruction {
	var out []ssa.CallInstruction
	for _, ci := range callInstrs(fn) {
		o := calleeObj(ci)
		if o == nil || o.Name() != name {
			continue
		}
		if recvOrPkg == "" || recvName(o) == recvOrPkg || (o.Pkg() != nil && o.Pkg().Path() == recvOrPkg) || (o.Pkg() != nil && o.Pkg().Name() == recvOrPkg && recvName(o) == "") {
			out = append(out, ci)
		}
	}
	return out
}

// recvName gives the name of the receiver's named type ("" for functions).
func recvName(f *types.Func) string {
	sig, ok := f.Type().(*types.Signature)
	if !ok || sig.Recv() == nil {
		return ""
	}
	t := sig.Recv().Type()
	if p, ok := t.(*types.Pointer); ok {
		t = p.Elem()
	}
	if n, ok := t.(*types.Named); ok {
		return n.Obj().Name()
	}
	return ""
}

// callViaField reports the struct field a dynamic call loads its function
// value from (v.verifySortitionFn(...)), or nil.
func callViaField(ci ssa.CallInstruction) *types.Var {
	cc := ci.Common()
	if cc.IsInvoke() {
		return nil
	}
	v := cc.Value
	if u, ok := v.(*ssa.UnOp); ok && u.Op == token.MUL {
		if fa, ok := u.X.(*ssa.FieldAddr); ok {
			return fieldOfAddr(fa)
		}
	}
	if f, ok := v.(*ssa.Field); ok {
		return structField(f.X.Type(), f.Field)
	}
	return nil
}

func structField(t types.Type, i int) *types.Var {
	if p, ok := t.Underlying().(*types.Pointer); ok {
		t = p.Elem()
	}
	if s, ok := t.Underlying().(*types.Struct); ok && i < s.NumFields() {
		return s.Field(i)
	}
	return nil
}

func fieldOfAddr(fa *ssa.FieldAddr) *types.Var {
	return structField(fa.X.Type(), fa.Field)
}

// callArgs returns the arguments of a call without the receiver.
func callArgs(ci ssa.CallInstruction) []ssa.Value {
	cc := ci.Common()
	if cc.IsInvoke() {
		return cc.Args
	}
	if fn := cc.StaticCallee(); fn != nil && fn.Signature.Recv() != nil && len(cc.Args) > 0 {
		return cc.Args[1:]
	}
	return cc.Args
}

// callRecv returns the receiver operand of a method call, or nil.
func callRecv(ci ssa.CallInstruction) ssa.Value {
	cc := ci.Common()
	if cc.IsInvoke() {
		return cc.Value
	}
	if fn := cc.StaticCallee(); fn != nil && fn.Signature.Recv() != nil && len(cc.Args) > 0 {
		return cc.Args[0]
	}
	return nil
}

// ---------------------------------------------------------------- dominance

func instrIndex(in ssa.Instruction) int {
	for i, x := range in.Block().Instrs {
		if x == in {
			return i
		}
	}
	return -1
}

// instrDominates: a executes before b on every path reaching b.
func instrDominates(a, b ssa.Instruction) bool {
	if a.Block() == b.Block() {
		return instrIndex(a) < instrIndex(b)
	}
	return a.Block().Dominates(b.Block())
}

// postDom computes post-dominator sets with respect to normal returns. Blocks
// that cannot reach a return (panics, infinite loops) are post-dominated by
// everything (vacuous).
type postDom struct {
	fn   *ssa.Function
	sets []map[int]bool // sets[b] = blocks post-dominating b (including b)
	live []bool         // can reach a return
}

func newPostDom(fn *ssa.Function) *postDom {
	n := len(fn.Blocks)
	pd := &postDom{fn: fn, sets: make([]map[int]bool, n), live: make([]bool, n)}
	// liveness: backwards reachability from returns
	var work []int
	for _, b := range fn.Blocks {
		if len(b.Instrs) > 0 {
			if _, ok := b.Instrs[len(b.Instrs)-1].(*ssa.Return); ok {
				pd.live[b.Index] = true
				work = append(work, b.Index)
			}
		}
	}
	for len(work) > 0 {
		i := work[len(work)-1]
		work = work[:len(work)-1]
		for _, p := range fn.Blocks[i].Preds {
			if !pd.live[p.Index] {
				pd.live[p.Index] = true
				work = append(work, p.Index)
			}
		}
	}
	all := map[int]bool{}
	for i := 0; i < n; i++ {
		all[i] = true
	}
	for i := 0; i < n; i++ {
		b := fn.Blocks[i]
		isRet := false
		if len(b.Instrs) > 0 {
			_, isRet = b.Instrs[len(b.Instrs)-1].(*ssa.Return)
		}
		if isRet {
			pd.sets[i] = map[int]bool{i: true}
		} else {
			s := map[int]bool{}
			for k := range all {
				s[k] = true
			}
			pd.sets[i] = s
		}
	}
	changed := true
	for changed {
		changed = false
		for i := n - 1; i >= 0; i-- {
			b := fn.Blocks[i]
			if !pd.live[i] {
				continue
			}
			if _, ok := b.Instrs[len(b.Instrs)-1].(*ssa.Return); ok {
				continue
			}
			var inter map[int]bool
			for _, s := range b.Succs {
				if !pd.live[s.Index] {
					continue
				}
				if inter == nil {
					inter = map[int]bool{}
					for k := range pd.sets[s.Index] {
						inter[k] = true
					}
				} else {
					for k := range inter {
						if !pd.sets[s.Index][k] {
							delete(inter, k)
						}
					}
				}
			}
			if inter == nil {
				inter = map[int]bool{}
			}
			inter[i] = true
			if len(inter) != len(pd.sets[i]) {
				pd.sets[i] = inter
				changed = true
			}
		}
	}
	return pd
}

// postDominates: every path from a to a normal return executes b.
func (pd *postDom) postDominates(b, a ssa.Instruction) bool {
	if !pd.live[a.Block().Index] {
		return true
	}
	if a.Block() == b.Block() {
		return instrIndex(b) > instrIndex(a)
	}
	return pd.sets[a.Block().Index][b.Block().Index]
}

func (pd *postDom) blockPostDominates(b, a *ssa.BasicBlock) bool {
	if !pd.live[a.Index] {
		return true
	}
	return pd.sets[a.Index][b.Index]
}

// ---------------------------------------------------------------- facts

// Fact: on every path reaching the block, Cond evaluated to Truth.
type Fact struct {
	Cond  ssa.Value
	Truth bool
	If    *ssa.If
}

// edgeDominates reports whether the CFG edge pred→succ dominates every path
// into succ: succ has no other predecessor except ones it dominates itself
// (loop back edges).
func edgeDominates(pred, succ *ssa.BasicBlock) bool {
	n := 0
	for _, p := range succ.Preds {
		if p == pred {
			n++
			continue
		}
		if !succ.Dominates(p) {
			return false
		}
	}
	return n == 1
}

// factsAt returns the branch conditions established on every path to b.
func factsAt(b *ssa.BasicBlock) []Fact { return expandFlags(factsAtRaw(b)) }

func factsAtRaw(b *ssa.BasicBlock) []Fact {
	var out []Fact
	for a := b; a != nil; a = a.Idom() {
		for _, p := range a.Preds {
			if a.Dominates(p) && p != a.Idom() {
				continue
			}
			if !edgeDominates(p, a) {
				continue
			}
			ifi, ok := p.Instrs[len(p.Instrs)-1].(*ssa.If)
			if !ok {
				continue
			}
			if p.Succs[0] == a && p.Succs[1] == a {
				continue
			}
			out = append(out, Fact{Cond: ifi.Cond, Truth: p.Succs[0] == a, If: ifi})
		}
	}
	return out
}

// expandFlags handles the boolean-flag idiom (add := false; if c { add = true };
// if add {...}): a fact about a phi of boolean constants that only one incoming
// edge can satisfy implies the facts of that edge.
func expandFlags(facts []Fact) []Fact {
	seen := map[*ssa.Phi]bool{}
	for i := 0; i < len(facts); i++ {
		v, t := facts[i].Cond, facts[i].Truth
		for {
			if u, ok := v.(*ssa.UnOp); ok && u.Op == token.NOT {
				v, t = u.X, !t
				continue
			}
			break
		}
		phi, ok := v.(*ssa.Phi)
		if !ok || seen[phi] {
			continue
		}
		if b, ok := phi.Type().Underlying().(*types.Basic); !ok || b.Kind() != types.Bool {
			continue
		}
		seen[phi] = true
		cand := -1
		n := 0
		for j, e := range phi.Edges {
			if c, ok := e.(*ssa.Const); ok && c.Value != nil && c.Value.Kind() == constant.Bool && constant.BoolVal(c.Value) != t {
				continue
			}
			cand = j
			n++
		}
		if n != 1 {
			continue
		}
		pred := phi.Block().Preds[cand]
		facts = append(facts, factsAtRaw(pred)...)
		if ef, ok := edgeFact(pred, phi.Block()); ok {
			facts = append(facts, ef)
		}
		if _, isConst := phi.Edges[cand].(*ssa.Const); !isConst {
			facts = append(facts, Fact{Cond: phi.Edges[cand], Truth: t})
		}
	}
	return facts
}

// factsAtInstr: facts holding when the instruction executes.
func factsAtInstr(in ssa.Instruction) []Fact { return factsAt(in.Block()) }

// Atom is a normalised fact.
type Atom struct {
	Kind  string    // "isnil", "eq", "true", "cmp"
	X, Y  ssa.Value // operands
	Op    token.Token
	Truth bool
}

func isNilConst(v ssa.Value) bool {
	c, ok := v.(*ssa.Const)
	return ok && c.IsNil()
}

// atomsOf normalises facts: strips negations, recognises comparisons with
// nil, equalities and other comparisons.
func atomsOf(facts []Fact) []Atom {
	var out []Atom
	for _, f := range facts {
		v, t := f.Cond, f.Truth
		for {
			if u, ok := v.(*ssa.UnOp); ok && u.Op == token.NOT {
				v, t = u.X, !t
				continue
			}
			break
		}
		if b, ok := v.(*ssa.BinOp); ok {
			switch b.Op {
			case token.EQL, token.NEQ:
				truth := t
				if b.Op == token.NEQ {
					truth = !t
				}
				if isNilConst(b.Y) {
					out = append(out, Atom{Kind: "isnil", X: b.X, Truth: truth})
				} else if isNilConst(b.X) {
					out = append(out, Atom{Kind: "isnil", X: b.Y, Truth: truth})
				} else {
					out = append(out, Atom{Kind: "eq", X: b.X, Y: b.Y, Truth: truth})
				}
				continue
			case token.LSS, token.LEQ, token.GTR, token.GEQ:
				out = append(out, Atom{Kind: "cmp", X: b.X, Y: b.Y, Op: b.Op, Truth: t})
				continue
			}
		}
		out = append(out, Atom{Kind: "true", X: v, Truth: t})
		// a condition moved into a small boolean helper is judged as if written in place: when the helper has
		// exactly one way of returning this truth value (a conjunction for true, a disjunction for false) the
		// facts of that way hold too; its parameters are bound to the arguments (paramBind)
		if helperDepth < 2 {
			if call, ok := v.(*ssa.Call); ok {
				if g := call.Call.StaticCallee(); isSmallHelper(g) && g.Signature.Results().Len() == 1 && isBoolType(g.Signature.Results().At(0).Type()) {
					var ways [][]Fact
					okEnum := enumPaths(g, 64, func(pr PathResult) {
						rv := pr.Resolve(pr.Ret.Results[0])
						if cv, isC := rv.(*ssa.Const); isC && cv.Value != nil && cv.Value.Kind() == constant.Bool {
							if constant.BoolVal(cv.Value) == t {
								ways = append(ways, pr.Facts)
							}
							return
						}
						ways = append(ways, append(append([]Fact(nil), pr.Facts...), Fact{Cond: rv, Truth: t}))
					})
					if okEnum && len(ways) == 1 {
						for i, prm := range g.Params {
							if i < len(call.Call.Args) {
								paramBind[prm] = call.Call.Args[i]
							}
						}
						helperDepth++
						out = append(out, atomsOf(ways[0])...)
						helperDepth--
					}
				}
			}
		}
	}
	return out
}

var helperDepth int

// resultOf reports whether v is result #idx of call (idx<0: any result).
// Conversions are looked through.
func resultOf(v ssa.Value, call ssa.CallInstruction, idx int) bool {
	cv := call.Value()
	if cv == nil {
		return false
	}
	v = stripConv(v)
	if v == ssa.Value(cv) {
		return idx <= 0
	}
	if e, ok := v.(*ssa.Extract); ok && e.Tuple == ssa.Value(cv) {
		return idx < 0 || e.Index == idx
	}
	return false
}

func stripConv(v ssa.Value) ssa.Value {
	for {
		switch x := v.(type) {
		case *ssa.ChangeType:
			v = x.X
		case *ssa.Convert:
			v = x.X
		case *ssa.ChangeInterface:
			v = x.X
		case *ssa.MakeInterface:
			v = x.X
		case *ssa.Parameter:
			// a parameter of a helper whose facts / results were inlined stands for its argument
			if a, has := paramBind[x]; has && a != v {
				v = a
				continue
			}
			return v
		default:
			return v
		}
	}
}

// errIdx returns the index of the (last) error result of a call, or -1.
func errIdx(ci ssa.CallInstruction) int {
	sig := ci.Common().Signature()
	res := sig.Results()
	for i := res.Len() - 1; i >= 0; i-- {
		if isErrorType(res.At(i).Type()) {
			return i
		}
	}
	return -1
}

func isErrorType(t types.Type) bool {
	n, ok := t.(*types.Named)
	return ok && n.Obj().Pkg() == nil && n.Obj().Name() == "error"
}

// hasErrNil: among facts, the error result of call is nil.
func hasErrNil(atoms []Atom, call ssa.CallInstruction) bool {
	idx := errIdx(call)
	if idx < 0 {
		return false
	}
	single := call.Common().Signature().Results().Len() == 1
	for _, a := range atoms {
		if a.Kind == "isnil" && a.Truth {
			if single && stripConv(a.X) == ssa.Value(call.Value()) {
				return true
			}
			if resultOf(a.X, call, idx) {
				return true
			}
		}
	}
	return false
}

// hasBoolResult: boolean result #idx of call is known to equal want.
func hasBoolResult(atoms []Atom, call ssa.CallInstruction, idx int, want bool) bool {
	for _, a := range atoms {
		if a.Kind == "true" && a.Truth == want && resultOf(a.X, call, idx) {
			return true
		}
		// comparison against a boolean constant: x == true
		if a.Kind == "eq" {
			if c, ok := a.Y.(*ssa.Const); ok && c.Value != nil && c.Value.Kind() == constant.Bool && resultOf(a.X, call, idx) {
				if (constant.BoolVal(c.Value) == a.Truth) == want {
					return true
				}
			}
		}
	}
	return false
}

// gatedByErrNil: instruction site executes only after call returned a nil error.
func gatedByErrNil(site ssa.Instruction, call ssa.CallInstruction) bool {
	return hasErrNil(atomsOf(factsAtInstr(site)), call)
}

func gatedByBool(site ssa.Instruction, call ssa.CallInstruction, idx int, want bool) bool {
	return hasBoolResult(atomsOf(factsAtInstr(site)), call, idx, want)
}

// ---------------------------------------------------------------- returns

// RetKind classifies what a return hands back in its error (or bool) slot.
type RetKind int

const (
	RetNil     RetKind = iota // constant nil / true
	RetFail                   // definitely non-nil error / false
	RetForward                // result of a call, forwarded unchanged
	RetUnknown
)

type RetPath struct {
	Ret   *ssa.Return
	Block *ssa.BasicBlock // block whose facts apply (pred block for phi edges)
	Kind  RetKind
	Call  ssa.CallInstruction // for RetForward
	Val   ssa.Value
	Edge  *Fact           // branch taken from Block towards the phi, if Block ends in an If
	To    *ssa.BasicBlock // the phi's block when this way of returning is a phi edge from Block
}

// Facts returns the conditions established on this way of returning.
func (r RetPath) Facts() []Fact {
	f := factsAtRaw(r.Block)
	if r.Edge != nil {
		f = append(f, *r.Edge)
	}
	return expandFlags(f)
}

func (r RetPath) Atoms() []Atom { return atomsOf(r.Facts()) }

// MayBeNil: the returned error can be nil on this path as far as the analysis knows.
func (r RetPath) MayBeNil() bool { return r.Kind != RetFail }

// returnPaths enumerates, for result slot idx, the distinct ways fn returns,
// splitting phis into their incoming edges.
func returnPaths(fn *ssa.Function, idx int) []RetPath {
	var out []RetPath
	for _, b := range fn.Blocks {
		if len(b.Instrs) == 0 {
			continue
		}
		r, ok := b.Instrs[len(b.Instrs)-1].(*ssa.Return)
		if !ok || idx >= len(r.Results) || b == fn.Recover {
			continue
		}
		seen := map[ssa.Value]bool{}
		var curEdge *Fact
		var curTo *ssa.BasicBlock
		emit := func(rp RetPath) {
			rp.Edge = curEdge
			rp.To = curTo
			// a value known non-nil on this very path is a failure
			if rp.Kind != RetFail && rp.Kind != RetNil {
				for _, a := range rp.Atoms() {
					if a.Kind == "isnil" && !a.Truth && stripConv(a.X) == stripConv(rp.Val) {
						rp.Kind = RetFail
					}
				}
			}
			out = append(out, rp)
		}
		var walk func(v ssa.Value, blk *ssa.BasicBlock)
		walk = func(v ssa.Value, blk *ssa.BasicBlock) {
			v = stripConv(v)
			switch x := v.(type) {
			case *ssa.Const:
				if x.IsNil() {
					emit(RetPath{Ret: r, Block: blk, Kind: RetNil, Val: v})
					return
				}
				if x.Value != nil && x.Value.Kind() == constant.Bool {
					k := RetFail
					if constant.BoolVal(x.Value) {
						k = RetNil
					}
					emit(RetPath{Ret: r, Block: blk, Kind: k, Val: v})
					return
				}
			case *ssa.Phi:
				if seen[v] {
					return
				}
				seen[v] = true
				for i, e := range x.Edges {
					pred := x.Block().Preds[i]
					saved, savedTo := curEdge, curTo
					curEdge = nil
					curTo = x.Block()
					if ifi, ok := pred.Instrs[len(pred.Instrs)-1].(*ssa.If); ok && pred.Succs[0] != pred.Succs[1] {
						curEdge = &Fact{Cond: ifi.Cond, Truth: pred.Succs[0] == x.Block(), If: ifi}
					}
					walk(e, pred)
					curEdge, curTo = saved, savedTo
				}
				return
			case *ssa.Call:
				if isErrorCtor(x) {
					emit(RetPath{Ret: r, Block: blk, Kind: RetFail, Val: v})
					return
				}
				emit(RetPath{Ret: r, Block: blk, Kind: RetForward, Call: x, Val: v})
				return
			case *ssa.Extract:
				if c, ok := x.Tuple.(*ssa.Call); ok {
					emit(RetPath{Ret: r, Block: blk, Kind: RetForward, Call: c, Val: v})
					return
				}
			case *ssa.UnOp:
				if x.Op == token.MUL {
					if g, ok := x.X.(*ssa.Global); ok && isErrorType(deref(g.Type())) {
						// a package-level error variable: a failure value
						emit(RetPath{Ret: r, Block: blk, Kind: RetFail, Val: v})
						return
					}
				}
			}
			// a value known non-nil by a dominating fact
			for _, a := range atomsOf(factsAt(blk)) {
				if a.Kind == "isnil" && !a.Truth && stripConv(a.X) == v {
					emit(RetPath{Ret: r, Block: blk, Kind: RetFail, Val: v})
					return
				}
			}
			emit(RetPath{Ret: r, Block: blk, Kind: RetUnknown, Val: v})
		}
		res := r.Results[idx]
		// defer-spilled result: *t0 = v; rundefers; t = *t0; return t
		if u, ok := res.(*ssa.UnOp); ok && u.Op == token.MUL {
			if a, ok := u.X.(*ssa.Alloc); ok && u.Block() == b {
				for i := instrIndex(u) - 1; i >= 0; i-- {
					if st, ok := b.Instrs[i].(*ssa.Store); ok && st.Addr == a {
						res = st.Val
						break
					}
				}
			}
		}
		walk(res, b)
	}
	return out
}

func deref(t types.Type) types.Type {
	if p, ok := t.Underlying().(*types.Pointer); ok {
		return p.Elem()
	}
	return t
}

func isErrorCtor(c *ssa.Call) bool {
	o := calleeObj(c)
	if o == nil || o.Pkg() == nil {
		return false
	}
	switch o.Pkg().Path() + "." + o.Name() {
	case "errors.New", "fmt.Errorf":
		return true
	}
	return false
}

// errResultIdx returns the index of fn's last error result or -1.
func errResultIdx(fn *ssa.Function) int {
	res := fn.Signature.Results()
	for i := res.Len() - 1; i >= 0; i-- {
		if isErrorType(res.At(i).Type()) {
			return i
		}
	}
	return -1
}

// ---------------------------------------------------------------- stores

// fieldStores lists the instructions of fn that write a struct field
// (directly, or an element of the map/slice it holds, or delete from it).
type FieldWrite struct {
	Field *types.Var
	Instr ssa.Instruction
	Base  ssa.Value // the struct (pointer) whose field is written
	Kind  string    // "store", "mapupdate", "delete", "elemstore"
}

func fieldWrites(fn *ssa.Function) []FieldWrite {
	var out []FieldWrite
	for _, b := range fn.Blocks {
		for _, in := range b.Instrs {
			switch x := in.(type) {
			case *ssa.Store:
				if fa, ok := x.Addr.(*ssa.FieldAddr); ok {
					out = append(out, FieldWrite{Field: fieldOfAddr(fa), Instr: in, Base: fa.X, Kind: "store"})
				} else if ia, ok := x.Addr.(*ssa.IndexAddr); ok {
					if f, base := loadedField(ia.X); f != nil {
						out = append(out, FieldWrite{Field: f, Instr: in, Base: base, Kind: "elemstore"})
					}
				}
			case *ssa.MapUpdate:
				if f, base := loadedField(x.Map); f != nil {
					out = append(out, FieldWrite{Field: f, Instr: in, Base: base, Kind: "mapupdate"})
				}
			case *ssa.Call:
				if bi, ok := x.Call.Value.(*ssa.Builtin); ok && bi.Name() == "delete" && len(x.Call.Args) > 0 {
					if f, base := loadedField(x.Call.Args[0]); f != nil {
						out = append(out, FieldWrite{Field: f, Instr: in, Base: base, Kind: "delete"})
					}
				}
			}
		}
	}
	return out
}

// loadedField: v is the value loaded from a struct field (x.f) — returns f and x.
func loadedField(v ssa.Value) (*types.Var, ssa.Value) {
	v = bound(v)
	switch x := v.(type) {
	case *ssa.UnOp:
		if x.Op == token.MUL {
			if fa, ok := x.X.(*ssa.FieldAddr); ok {
				return fieldOfAddr(fa), bound(fa.X)
			}
		}
	case *ssa.Field:
		return structField(x.X.Type(), x.Field), bound(x.X)
	case *ssa.FieldAddr:
		// address of an array-typed field used as IndexAddr base
		return fieldOfAddr(x), bound(x.X)
	}
	return nil, nil
}

// bound resolves a parameter of a helper that a backward walk entered to the
// argument it was entered with (see paramBind).
func bound(v ssa.Value) ssa.Value {
	for i := 0; i < 4; i++ {
		// a parameter captured by a closure is spilled to a cell: *cell with the parameter as only store
		if u, isU := v.(*ssa.UnOp); isU && u.Op == token.MUL {
			if a, isA := u.X.(*ssa.Alloc); isA {
				var only ssa.Value
				n := 0
				for _, r := range *a.Referrers() {
					if st, ok := r.(*ssa.Store); ok && st.Addr == a {
						n++
						only = st.Val
					}
				}
				if prm, isP := only.(*ssa.Parameter); n == 1 && isP {
					if _, has := paramBind[prm]; has {
						v = prm
					}
				}
			}
		}
		p, ok := v.(*ssa.Parameter)
		if !ok {
			return v
		}
		a, has := paramBind[p]
		if !has {
			return v
		}
		v = a
	}
	return v
}

// enterHelper binds the parameters of a small repository helper to the
// arguments of call and returns the values the helper returns (nil if the
// callee is not such a helper).
func enterHelper(call *ssa.Call) []ssa.Value {
	g := call.Call.StaticCallee()
	if !isSmallHelper(g) {
		return nil
	}
	for i, prm := range g.Params {
		if i < len(call.Call.Args) {
			paramBind[prm] = call.Call.Args[i]
		}
	}
	var out []ssa.Value
	for _, b := range g.Blocks {
		if r, isRet := b.Instrs[len(b.Instrs)-1].(*ssa.Return); isRet && b != g.Recover {
			out = append(out, r.Results...)
		}
	}
	return out
}

// fieldReads lists loads of a struct field in fn.
func fieldReads(fn *ssa.Function, f *types.Var) []ssa.Instruction {
	var out []ssa.Instruction
	for _, b := range fn.Blocks {
		for _, in := range b.Instrs {
			switch x := in.(type) {
			case *ssa.UnOp:
				if x.Op == token.MUL {
					if fa, ok := x.X.(*ssa.FieldAddr); ok && fieldOfAddr(fa) == f {
						out = append(out, in)
					}
				}
			case *ssa.Field:
				if structField(x.X.Type(), x.Field) == f {
					out = append(out, in)
				}
			}
		}
	}
	return out
}

// constInt returns the integer value of a constant operand.
func constInt(v ssa.Value) (int64, bool) {
	c, ok := stripConv(v).(*ssa.Const)
	if !ok || c.Value == nil || c.Value.Kind() != constant.Int {
		return 0, false
	}
	i, ok := constant.Int64Val(c.Value)
	return i, ok
}

// closuresOf returns fn and all functions nested in it.
func withClosures(fn *ssa.Function) []*ssa.Function {
	out := []*ssa.Function{fn}
	for _, a := range fn.AnonFuncs {
		out = append(out, withClosures(a)...)
	}
	return out
}

// reachableStatic computes the functions reachable from roots through static
// calls, closures created, and method values taken (no interface dispatch).
func reachableStatic(roots []*ssa.Function, follow func(*ssa.Function) bool) map[*ssa.Function]bool {
	seen := map[*ssa.Function]bool{}
	var work []*ssa.Function
	push := func(f *ssa.Function) {
		if f == nil || seen[f] || f.Blocks == nil {
			return
		}
		if follow != nil && !follow(f) {
			return
		}
		seen[f] = true
		work = append(work, f)
	}
	for _, r := range roots {
		push(r)
	}
	for len(work) > 0 {
		f := work[len(work)-1]
		work = work[:len(work)-1]
		for _, b := range f.Blocks {
			for _, in := range b.Instrs {
				if ci, ok := in.(ssa.CallInstruction); ok {
					push(ci.Common().StaticCallee())
				}
				for _, op := range in.Operands(nil) {
					if op == nil || *op == nil {
						continue
					}
					switch x := (*op).(type) {
					case *ssa.MakeClosure:
						if cf, ok := x.Fn.(*ssa.Function); ok {
							push(cf)
						}
					case *ssa.Function:
						push(x)
					}
				}
			}
		}
	}
	return seen
}

// ---------------------------------------------------------------- paths

func blockHasAny(b *ssa.BasicBlock, set map[ssa.Instruction]bool) bool {
	for _, in := range b.Instrs {
		if set[in] {
			return true
		}
	}
	return false
}

func instrSet(ins []ssa.Instruction) map[ssa.Instruction]bool {
	m := map[ssa.Instruction]bool{}
	for _, i := range ins {
		m[i] = true
	}
	return m
}

func callsAsInstrs(cs []ssa.CallInstruction) []ssa.Instruction {
	var out []ssa.Instruction
	for _, c := range cs {
		out = append(out, c)
	}
	return out
}

// mustPassBefore: every path from the function entry to site executes one of
// gates before reaching site.
func mustPassBefore(site ssa.Instruction, gates []ssa.Instruction) bool {
	if len(gates) == 0 {
		return false
	}
	set := instrSet(gates)
	sb := site.Block()
	si := instrIndex(site)
	for i := 0; i < si; i++ {
		if set[sb.Instrs[i]] {
			return true
		}
	}
	if sb.Index == 0 {
		return false
	}
	seen := map[*ssa.BasicBlock]bool{sb: true}
	work := append([]*ssa.BasicBlock(nil), sb.Preds...)
	for len(work) > 0 {
		b := work[len(work)-1]
		work = work[:len(work)-1]
		if seen[b] {
			continue
		}
		seen[b] = true
		if blockHasAny(b, set) {
			continue
		}
		if b.Index == 0 {
			return false
		}
		work = append(work, b.Preds...)
	}
	return true
}

// mustPassAfter: every path from site to a normal return executes one of
// gates after site. Paths ending in panic are ignored.
func mustPassAfter(site ssa.Instruction, gates []ssa.Instruction) bool {
	if len(gates) == 0 {
		return false
	}
	set := instrSet(gates)
	sb := site.Block()
	si := instrIndex(site)
	for i := si + 1; i < len(sb.Instrs); i++ {
		if set[sb.Instrs[i]] {
			return true
		}
	}
	isRet := func(b *ssa.BasicBlock) bool {
		_, ok := b.Instrs[len(b.Instrs)-1].(*ssa.Return)
		return ok
	}
	if isRet(sb) {
		return false
	}
	seen := map[*ssa.BasicBlock]bool{}
	work := append([]*ssa.BasicBlock(nil), sb.Succs...)
	for len(work) > 0 {
		b := work[len(work)-1]
		work = work[:len(work)-1]
		if seen[b] {
			continue
		}
		seen[b] = true
		if b == sb {
			// back at the site's block through a loop: gates before the site count
			hit := false
			for i := 0; i < si; i++ {
				if set[sb.Instrs[i]] {
					hit = true
				}
			}
			if hit {
				continue
			}
			continue
		}
		if blockHasAny(b, set) {
			continue
		}
		if isRet(b) {
			return false
		}
		work = append(work, b.Succs...)
	}
	return true
}

// alwaysWith: the site and one of gates occur on the same paths (the gate is
// passed on every path before the site, or on every path after it).
func alwaysWith(site ssa.Instruction, gates []ssa.Instruction) bool {
	return mustPassBefore(site, gates) || mustPassAfter(site, gates)
}

// ---------------------------------------------------------------- slices

// backward walks the values v is computed from (operands, phi edges, stores
// into loaded local allocations). visit returns false to stop descending
// below a value.
func backward(v ssa.Value, visit func(ssa.Value) bool) {
	seen := map[ssa.Value]bool{}
	depth := 0
	var walk func(v ssa.Value)
	walk = func(v ssa.Value) {
		if v == nil || seen[v] {
			return
		}
		seen[v] = true
		if !visit(v) {
			return
		}
		if in, ok := v.(ssa.Instruction); ok {
			for _, op := range in.Operands(nil) {
				if op != nil && *op != nil {
					walk(*op)
				}
			}
		}
		// the result of a small repository helper is also what the helper returns: a computation
		// moved into a helper is followed with the helper's parameters bound to the arguments
		if call, ok := v.(*ssa.Call); ok && depth < 3 {
			if g := call.Call.StaticCallee(); isSmallHelper(g) {
				for i, prm := range g.Params {
					if i < len(call.Call.Args) {
						paramBind[prm] = call.Call.Args[i]
					}
				}
				depth++
				for _, b := range g.Blocks {
					if r, isRet := b.Instrs[len(b.Instrs)-1].(*ssa.Return); isRet && b != g.Recover {
						for _, res := range r.Results {
							walk(res)
						}
					}
				}
				depth--
			}
		}
		if ex, ok := v.(*ssa.Extract); ok && depth < 3 {
			// result #i of a helper with several results
			if call, ok := ex.Tuple.(*ssa.Call); ok {
				if g := call.Call.StaticCallee(); isSmallHelper(g) {
					for i, prm := range g.Params {
						if i < len(call.Call.Args) {
							paramBind[prm] = call.Call.Args[i]
						}
					}
					depth++
					for _, b := range g.Blocks {
						if r, isRet := b.Instrs[len(b.Instrs)-1].(*ssa.Return); isRet && b != g.Recover && ex.Index < len(r.Results) {
							walk(r.Results[ex.Index])
						}
					}
					depth--
				}
			}
		}
		if prm, ok := v.(*ssa.Parameter); ok {
			if a, has := paramBind[prm]; has {
				walk(a)
			}
		}
		// loads of a local allocation: follow what was stored
		if u, ok := v.(*ssa.UnOp); ok && u.Op == token.MUL {
			if a, ok := u.X.(*ssa.Alloc); ok {
				for _, r := range *a.Referrers() {
					if st, ok := r.(*ssa.Store); ok && st.Addr == a {
						walk(st.Val)
					}
				}
			}
		}
		if a, ok := v.(*ssa.Alloc); ok {
			var addrs func(x ssa.Value, depth int)
			addrs = func(x ssa.Value, depth int) {
				for _, r := range *x.Referrers() {
					switch y := r.(type) {
					case *ssa.Store:
						if y.Addr == x {
							walk(y.Val)
						}
					case *ssa.FieldAddr:
						if y.X == x && depth < 4 {
							addrs(y, depth+1)
						}
					case *ssa.IndexAddr:
						if y.X == x && depth < 4 {
							addrs(y, depth+1)
						}
					}
				}
			}
			addrs(a, 0)
		}
	}
	walk(v)
}

// paramBind binds the parameters of helpers entered by a backward walk to the
// arguments of the call through which they were entered (dynamic scope: the
// latest entry wins, which is the call being walked).
var paramBind = map[*ssa.Parameter]ssa.Value{}

// isSmallHelper: an unexported, non-recursive repository function with a body of
// moderate size — the kind of function a statement or an expression is
// extracted into. Rules treat its result as computed at the call site.
func isSmallHelper(g *ssa.Function) bool {
	if g == nil || g.Blocks == nil || g.Pkg == nil || !strings.HasPrefix(g.Pkg.Pkg.Path(), "github.com/youchainhq/go-youchain") {
		return false
	}
	if o := g.Object(); o == nil || o.Exported() {
		return false
	}
	n := 0
	for _, b := range g.Blocks {
		n += len(b.Instrs)
		for _, in := range b.Instrs {
			if c, ok := in.(ssa.CallInstruction); ok && c.Common().StaticCallee() == g {
				return false
			}
		}
	}
	return n <= 60
}

// derivesFrom: some value in the backward slice of v satisfies pred.
func derivesFrom(v ssa.Value, pred func(ssa.Value) bool) bool {
	found := false
	backward(v, func(x ssa.Value) bool {
		if found {
			return false
		}
		if pred(x) {
			found = true
			return false
		}
		return true
	})
	return found
}

// isLocalAlloc: v is (the address of) an object allocated in this function
// that is still under construction (composite literal / new).
func isLocalAlloc(v ssa.Value) bool {
	for {
		switch x := v.(type) {
		case *ssa.Alloc:
			return true
		case *ssa.FieldAddr:
			v = x.X
		case *ssa.IndexAddr:
			v = x.X
		case *ssa.UnOp:
			if x.Op != token.MUL {
				return false
			}
			// load of a local variable holding a fresh allocation
			a, ok := x.X.(*ssa.Alloc)
			if !ok {
				return false
			}
			var stored ssa.Value
			n := 0
			for _, r := range *a.Referrers() {
				if st, ok := r.(*ssa.Store); ok && st.Addr == a {
					stored = st.Val
					n++
				}
			}
			if n != 1 {
				return false
			}
			v = stored
		default:
			return false
		}
	}
}

// ---------------------------------------------------------------- access paths

// samePath: a and b denote the same storage read or the same value: identical
// SSA values, or loads through the same chain of fields from the same root
// (stores in between are not tracked: used only for values that are written
// once per iteration, such as range variables), or calls of the same method on
// the same receiver path with no arguments (pure accessors).
func samePath(a, b ssa.Value) bool {
	a, b = stripConv(a), stripConv(b)
	if a == b {
		return true
	}
	switch x := a.(type) {
	case *ssa.UnOp:
		y, ok := b.(*ssa.UnOp)
		if !ok || x.Op != y.Op {
			return false
		}
		return samePath(x.X, y.X)
	case *ssa.FieldAddr:
		y, ok := b.(*ssa.FieldAddr)
		return ok && x.Field == y.Field && samePath(x.X, y.X)
	case *ssa.Field:
		y, ok := b.(*ssa.Field)
		return ok && x.Field == y.Field && samePath(x.X, y.X)
	case *ssa.IndexAddr:
		y, ok := b.(*ssa.IndexAddr)
		return ok && samePath(x.X, y.X) && samePath(x.Index, y.Index)
	case *ssa.Const:
		y, ok := b.(*ssa.Const)
		return ok && x.Value != nil && y.Value != nil && constant.Compare(x.Value, token.EQL, y.Value)
	case *ssa.Call:
		y, ok := b.(*ssa.Call)
		if !ok {
			return false
		}
		ox, oy := calleeObj(x), calleeObj(y)
		if ox == nil || !sameFunc(ox, oy) {
			return false
		}
		ax, ay := x.Call.Args, y.Call.Args
		if x.Call.IsInvoke() {
			if !samePath(x.Call.Value, y.Call.Value) {
				return false
			}
		}
		if len(ax) != len(ay) || len(callArgs(x)) != 0 {
			return false
		}
		for i := range ax {
			if !samePath(ax[i], ay[i]) {
				return false
			}
		}
		return true
	}
	return false
}

// ---------------------------------------------------------------- provenance

// Source is a leaf of a backward slice.
type Source struct {
	Kind  string // "field", "param", "call", "global", "const", "other"
	Field *types.Var
	Owner string // declaring struct of Field
	Call  *ssa.Call
	Val   ssa.Value
}

func (s Source) String() string {
	switch s.Kind {
	case "field":
		return "field " + s.Owner + "." + s.Field.Name()
	case "call":
		if o := calleeObj(s.Call); o != nil {
			return "result of " + o.Name()
		}
		return "result of a dynamic call"
	case "param":
		return "parameter " + s.Val.Name()
	case "global":
		return "global " + s.Val.Name()
	}
	return s.Kind
}

// sourcesOf collects the leaves v is computed from. Field loads are leaves
// (their base is not followed); parameters are followed to the arguments at
// every static call site in the repository (depth-bounded); calls are leaves
// unless through returns true for them, in which case their arguments are followed.
func (w *World) sourcesOf(v ssa.Value, depth int, through func(*ssa.Call) bool) []Source {
	var out []Source
	seen := map[ssa.Value]bool{}
	var walk func(v ssa.Value, d int)
	walk = func(v ssa.Value, d int) {
		if v == nil || seen[v] {
			return
		}
		seen[v] = true
		switch x := v.(type) {
		case *ssa.Const:
			out = append(out, Source{Kind: "const", Val: v})
			return
		case *ssa.Global:
			out = append(out, Source{Kind: "global", Val: v})
			return
		case *ssa.Function, *ssa.Builtin:
			return
		case *ssa.Parameter:
			if d <= 0 {
				out = append(out, Source{Kind: "param", Val: v})
				return
			}
			fn := x.Parent()
			idx := -1
			for i, p := range fn.Params {
				if p == x {
					idx = i
				}
			}
			sites := w.Callers(fn)
			if len(sites) == 0 || idx < 0 {
				out = append(out, Source{Kind: "param", Val: v})
				return
			}
			for _, cs := range sites {
				args := cs.Common().Args
				if idx < len(args) {
					walk(args[idx], d-1)
				}
			}
			return
		case *ssa.Field:
			f := structField(x.X.Type(), x.Field)
			out = append(out, Source{Kind: "field", Field: f, Owner: ownerName(x.X.Type()), Val: v})
			return
		case *ssa.UnOp:
			if x.Op == token.MUL {
				if fa, ok := x.X.(*ssa.FieldAddr); ok {
					out = append(out, Source{Kind: "field", Field: fieldOfAddr(fa), Owner: ownerName(fa.X.Type()), Val: v})
					return
				}
				if a, ok := x.X.(*ssa.Alloc); ok {
					for _, r := range *a.Referrers() {
						if st, ok := r.(*ssa.Store); ok && st.Addr == a {
							walk(st.Val, d)
						}
					}
					return
				}
				if _, ok := x.X.(*ssa.Global); ok {
					out = append(out, Source{Kind: "global", Val: x.X})
					return
				}
			}
		case *ssa.Call:
			if bi, ok := x.Call.Value.(*ssa.Builtin); ok {
				_ = bi
				for _, a := range x.Call.Args {
					walk(a, d)
				}
				return
			}
			if through != nil && through(x) {
				if x.Call.IsInvoke() {
					walk(x.Call.Value, d)
				}
				for _, a := range x.Call.Args {
					walk(a, d)
				}
				return
			}
			out = append(out, Source{Kind: "call", Call: x, Val: v})
			return
		case *ssa.Extract:
			walk(x.Tuple, d)
			return
		}
		if in, ok := v.(ssa.Instruction); ok {
			ops := in.Operands(nil)
			if len(ops) == 0 {
				out = append(out, Source{Kind: "other", Val: v})
			}
			for _, op := range ops {
				if op != nil && *op != nil {
					walk(*op, d)
				}
			}
			return
		}
		out = append(out, Source{Kind: "other", Val: v})
	}
	walk(v, depth)
	return out
}

func ownerName(t types.Type) string {
	if p, ok := t.Underlying().(*types.Pointer); ok {
		t = p.Elem()
	}
	if n, ok := t.(*types.Named); ok {
		return n.Obj().Name()
	}
	return ""
}

func ownerPkg(t types.Type) string {
	if p, ok := t.Underlying().(*types.Pointer); ok {
		t = p.Elem()
	}
	if n, ok := t.(*types.Named); ok && n.Obj().Pkg() != nil {
		return n.Obj().Pkg().Path()
	}
	return ""
}

// allPathsPassEdge: every path from the entry to target traverses a CFG edge
// accepted by good.
func allPathsPassEdge(fn *ssa.Function, target *ssa.BasicBlock, good func(from, to *ssa.BasicBlock) bool) bool {
	seen := map[*ssa.BasicBlock]bool{}
	work := []*ssa.BasicBlock{fn.Blocks[0]}
	for len(work) > 0 {
		b := work[len(work)-1]
		work = work[:len(work)-1]
		if seen[b] {
			continue
		}
		seen[b] = true
		if b == target {
			return false
		}
		for _, s := range b.Succs {
			if good(b, s) {
				continue
			}
			work = append(work, s)
		}
	}
	return true
}

// edgeFact gives the condition established by taking the edge from→to.
func edgeFact(from, to *ssa.BasicBlock) (Fact, bool) {
	ifi, ok := from.Instrs[len(from.Instrs)-1].(*ssa.If)
	if !ok || from.Succs[0] == from.Succs[1] {
		return Fact{}, false
	}
	return Fact{Cond: ifi.Cond, Truth: from.Succs[0] == to, If: ifi}, true
}

// flagPreds returns the blocks whose execution is implied by boolean-flag facts
// holding at b (see expandFlags): the unique predecessor that can give the
// flag the tested value.
func flagPreds(b *ssa.BasicBlock) []*ssa.BasicBlock {
	var out []*ssa.BasicBlock
	for _, f := range factsAtRaw(b) {
		v, t := f.Cond, f.Truth
		for {
			if u, ok := v.(*ssa.UnOp); ok && u.Op == token.NOT {
				v, t = u.X, !t
				continue
			}
			break
		}
		phi, ok := v.(*ssa.Phi)
		if !ok {
			continue
		}
		cand, n := -1, 0
		for j, e := range phi.Edges {
			if c, ok := e.(*ssa.Const); ok && c.Value != nil && c.Value.Kind() == constant.Bool && constant.BoolVal(c.Value) != t {
				continue
			}
			cand = j
			n++
		}
		if n == 1 {
			out = append(out, phi.Block().Preds[cand])
		}
	}
	return out
}

// passedBefore: like mustPassBefore, but also accepts gates that lie in (or
// dominate) a block implied by a boolean flag tested on the way to site.
func passedBefore(site ssa.Instruction, gates []ssa.Instruction) bool {
	if mustPassBefore(site, gates) {
		return true
	}
	for _, p := range flagPreds(site.Block()) {
		for _, g := range gates {
			if g.Block() == p || g.Block().Dominates(p) {
				return true
			}
		}
	}
	return false
}

// backwardCtl is backward plus control dependence of phis: when a phi merges
// values, the conditions of the branches that select its incoming edges are
// part of what the phi's value depends on.
func backwardCtl(v ssa.Value, visit func(ssa.Value) bool) {
	seen := map[ssa.Value]bool{}
	var walk func(v ssa.Value)
	walk = func(v ssa.Value) {
		if v == nil || seen[v] {
			return
		}
		seen[v] = true
		if !visit(v) {
			return
		}
		if phi, ok := v.(*ssa.Phi); ok && isBoolType(phi.Type()) {
			for _, p := range phi.Block().Preds {
				if ifi, ok := p.Instrs[len(p.Instrs)-1].(*ssa.If); ok {
					walk(ifi.Cond)
				}
				if len(p.Preds) == 1 {
					q := p.Preds[0]
					if ifi, ok := q.Instrs[len(q.Instrs)-1].(*ssa.If); ok {
						walk(ifi.Cond)
					}
				}
			}
		}
		if in, ok := v.(ssa.Instruction); ok {
			for _, op := range in.Operands(nil) {
				if op != nil && *op != nil {
					walk(*op)
				}
			}
		}
	}
	walk(v)
}

// ---------------------------------------------------------------- path enumeration

// PathResult is one acyclic path of a loop-free function to a return.
type PathResult struct {
	Facts   []Fact // symbolic branch decisions, in order
	Ret     *ssa.Return
	Resolve func(ssa.Value) ssa.Value // resolves phis along this path
	Blocks  map[*ssa.BasicBlock]bool  // blocks on this path
}

// enumPaths enumerates every feasible acyclic path of fn, resolving phis by
// the edge taken and following only the matching successor when a branch
// condition resolves to a boolean constant on the path. Contradictory
// decisions on the same SSA value are pruned. Returns false if the path
// budget is exceeded or the function has a loop.
func enumPaths(fn *ssa.Function, budget int, visit func(PathResult)) bool {
	count := 0
	ok := true
	type env map[*ssa.Phi]ssa.Value
	var dfs func(b, pred *ssa.BasicBlock, e env, facts []Fact, onPath map[*ssa.BasicBlock]bool)
	resolveIn := func(e env) func(ssa.Value) ssa.Value {
		var r func(v ssa.Value) ssa.Value
		r = func(v ssa.Value) ssa.Value {
			for i := 0; i < 64; i++ {
				if p, isPhi := v.(*ssa.Phi); isPhi {
					if x, has := e[p]; has {
						v = x
						continue
					}
				}
				break
			}
			return v
		}
		return r
	}
	dfs = func(b, pred *ssa.BasicBlock, e env, facts []Fact, onPath map[*ssa.BasicBlock]bool) {
		if !ok {
			return
		}
		if onPath[b] {
			ok = false // loop
			return
		}
		onPath[b] = true
		defer delete(onPath, b)
		// resolve phis
		e2 := e
		if pred != nil {
			idx := -1
			for i, p := range b.Preds {
				if p == pred {
					idx = i
				}
			}
			copied := false
			for _, in := range b.Instrs {
				phi, isPhi := in.(*ssa.Phi)
				if !isPhi {
					break
				}
				if !copied {
					e2 = env{}
					for k, v := range e {
						e2[k] = v
					}
					copied = true
				}
				e2[phi] = resolveIn(e)(phi.Edges[idx])
			}
		}
		res := resolveIn(e2)
		last := b.Instrs[len(b.Instrs)-1]
		switch t := last.(type) {
		case *ssa.Return:
			count++
			if count > budget {
				ok = false
				return
			}
			blocks := map[*ssa.BasicBlock]bool{}
			for k := range onPath {
				blocks[k] = true
			}
			visit(PathResult{Facts: append([]Fact(nil), facts...), Ret: t, Resolve: res, Blocks: blocks})
		case *ssa.If:
			v, truth := res(t.Cond), true
			for {
				if u, isU := v.(*ssa.UnOp); isU && u.Op == token.NOT {
					v, truth = res(u.X), !truth
					continue
				}
				break
			}
			if cv, isC := v.(*ssa.Const); isC && cv.Value != nil && cv.Value.Kind() == constant.Bool {
				taken := constant.BoolVal(cv.Value) == truth
				if taken {
					dfs(b.Succs[0], b, e2, facts, onPath)
				} else {
					dfs(b.Succs[1], b, e2, facts, onPath)
				}
				return
			}
			for _, want := range []bool{true, false} {
				// want = value of the (un-negated) symbolic condition v
				contradict := false
				for _, f := range facts {
					if f.Cond == v && f.Truth != want {
						contradict = true
					}
				}
				if contradict {
					continue
				}
				nf := append(append([]Fact(nil), facts...), Fact{Cond: v, Truth: want, If: t})
				if want == truth {
					dfs(b.Succs[0], b, e2, nf, onPath)
				} else {
					dfs(b.Succs[1], b, e2, nf, onPath)
				}
			}
		case *ssa.Jump:
			dfs(b.Succs[0], b, e2, facts, onPath)
		default:
			// panic or other terminator: path ends without a return
		}
	}
	dfs(fn.Blocks[0], nil, env{}, nil, map[*ssa.BasicBlock]bool{})
	return ok
}

func constantInt64(v constant.Value) (int64, bool) { return constant.Int64Val(constant.ToInt(v)) }

// pathsBetween enumerates the feasible acyclic paths from the start of block
// from to block to (within one loop iteration: a path that revisits a block
// ends). Phis are resolved by the edge taken; a branch whose condition
// resolves to a constant is followed one way; decisions that contradict an
// earlier decision on the same value — or an earlier nil / non-nil decision
// on the same resolved operand — are pruned.
func pathsBetween(fn *ssa.Function, from, to *ssa.BasicBlock, budget int, visit func(blocks []*ssa.BasicBlock, facts []Fact)) bool {
	count := 0
	ok := true
	type env map[*ssa.Phi]ssa.Value
	resolveIn := func(e env) func(ssa.Value) ssa.Value {
		return func(v ssa.Value) ssa.Value {
			for i := 0; i < 64; i++ {
				if p, isPhi := v.(*ssa.Phi); isPhi {
					if x, has := e[p]; has {
						v = x
						continue
					}
				}
				break
			}
			return v
		}
	}
	type nilFact struct {
		v     ssa.Value
		isNil bool
	}
	var dfs func(b, pred *ssa.BasicBlock, e env, facts []Fact, nils []nilFact, path []*ssa.BasicBlock, onPath map[*ssa.BasicBlock]bool)
	dfs = func(b, pred *ssa.BasicBlock, e env, facts []Fact, nils []nilFact, path []*ssa.BasicBlock, onPath map[*ssa.BasicBlock]bool) {
		if !ok || onPath[b] {
			return
		}
		onPath[b] = true
		defer delete(onPath, b)
		path = append(path, b)
		e2 := e
		if pred != nil {
			idx := -1
			for i, p := range b.Preds {
				if p == pred {
					idx = i
				}
			}
			copied := false
			for _, in := range b.Instrs {
				phi, isPhi := in.(*ssa.Phi)
				if !isPhi {
					break
				}
				if !copied {
					e2 = env{}
					for k, v := range e {
						e2[k] = v
					}
					copied = true
				}
				e2[phi] = resolveIn(e)(phi.Edges[idx])
			}
		}
		if b == to {
			count++
			if count > budget {
				ok = false
				return
			}
			visit(append([]*ssa.BasicBlock(nil), path...), append([]Fact(nil), facts...))
			return
		}
		res := resolveIn(e2)
		switch t := b.Instrs[len(b.Instrs)-1].(type) {
		case *ssa.If:
			v, truth := res(t.Cond), true
			for {
				if u, isU := v.(*ssa.UnOp); isU && u.Op == token.NOT {
					v, truth = res(u.X), !truth
					continue
				}
				break
			}
			if cv, isC := v.(*ssa.Const); isC && cv.Value != nil && cv.Value.Kind() == constant.Bool {
				if constant.BoolVal(cv.Value) == truth {
					dfs(b.Succs[0], b, e2, facts, nils, path, onPath)
				} else {
					dfs(b.Succs[1], b, e2, facts, nils, path, onPath)
				}
				return
			}
			for _, want := range []bool{true, false} {
				contradict := false
				for _, f := range facts {
					if f.Cond == v && f.Truth != want {
						contradict = true
					}
				}
				nn := nils
				if bo, isB := v.(*ssa.BinOp); isB && (bo.Op == token.EQL || bo.Op == token.NEQ) && (isNilConst(bo.X) || isNilConst(bo.Y)) {
					x := bo.X
					if isNilConst(bo.X) {
						x = bo.Y
					}
					x = res(x)
					isNil := want == (bo.Op == token.EQL)
					if isNil && definitelyNonNil(x) {
						contradict = true
					}
					if cx, isC := x.(*ssa.Const); isC && cx.IsNil() && !isNil {
						contradict = true
					}
					for _, n := range nils {
						if n.v == x && n.isNil != isNil {
							contradict = true
						}
					}
					nn = append(append([]nilFact(nil), nils...), nilFact{x, isNil})
				}
				// equality with a global error value implies non-nil
				if bo, isB := v.(*ssa.BinOp); isB && bo.Op == token.EQL && want {
					for _, pr := range [][2]ssa.Value{{bo.X, bo.Y}, {bo.Y, bo.X}} {
						if u, isU := pr[1].(*ssa.UnOp); isU {
							if _, isG := u.X.(*ssa.Global); isG {
								x := res(pr[0])
								for _, n := range nils {
									if n.v == x && n.isNil {
										contradict = true
									}
								}
							}
						}
					}
				}
				if contradict {
					continue
				}
				nf := append(append([]Fact(nil), facts...), Fact{Cond: v, Truth: want, If: t})
				if want == truth {
					dfs(b.Succs[0], b, e2, nf, nn, path, onPath)
				} else {
					dfs(b.Succs[1], b, e2, nf, nn, path, onPath)
				}
			}
		case *ssa.Jump:
			dfs(b.Succs[0], b, e2, facts, nils, path, onPath)
		}
	}
	dfs(from, nil, env{}, nil, nil, nil, map[*ssa.BasicBlock]bool{})
	return ok
}

// termOf renders the computation of v as a term over parameters, constants
// and callee names (receiver call chains included), for sibling comparison.
func termOf(v ssa.Value, depth int) string {
	if depth <= 0 {
		return "…"
	}
	switch x := v.(type) {
	case *ssa.Parameter:
		if b := bound(x); b != ssa.Value(x) {
			return termOf(b, depth)
		}
		return x.Name()
	case *ssa.Const:
		if x.Value == nil {
			return "nil"
		}
		return x.Value.String()
	case *ssa.Extract:
		return termOf(x.Tuple, depth) + fmt.Sprintf("#%d", x.Index)
	case *ssa.Convert:
		return "conv(" + termOf(x.X, depth-1) + ")"
	case *ssa.ChangeType:
		return termOf(x.X, depth)
	case *ssa.MakeInterface:
		return termOf(x.X, depth)
	case *ssa.BinOp:
		return x.Op.String() + "(" + termOf(x.X, depth-1) + "," + termOf(x.Y, depth-1) + ")"
	case *ssa.UnOp:
		if f, base := loadedField(x); f != nil {
			return termOf(base, depth-1) + "." + f.Name()
		}
		return x.Op.String() + "(" + termOf(x.X, depth-1) + ")"
	case *ssa.Call:
		// an expression moved into a small helper with a single result and a single return is rendered as if
		// written in place (its parameters stand for the arguments)
		if g := x.Call.StaticCallee(); isSmallHelper(g) && g.Signature.Results().Len() == 1 {
			if rets := enterHelper(x); len(rets) == 1 {
				return termOf(rets[0], depth)
			}
		}
		name := "call"
		if o := calleeObj(x); o != nil {
			name = o.Name()
		} else if b, ok := x.Call.Value.(*ssa.Builtin); ok {
			name = b.Name()
		}
		var args []string
		if x.Call.IsInvoke() {
			args = append(args, termOf(x.Call.Value, depth-1))
		}
		for _, a := range x.Call.Args {
			args = append(args, termOf(a, depth-1))
		}
		return name + "(" + strings.Join(args, ",") + ")"
	case *ssa.Alloc:
		return "new"
	}
	return fmt.Sprintf("%T", v)
}

func isBoolType(t types.Type) bool {
	b, ok := t.Underlying().(*types.Basic)
	return ok && b.Kind() == types.Bool
}

// definitelyNonNil: a package-level error variable or a freshly constructed error.
func definitelyNonNil(v ssa.Value) bool {
	v = stripConv(v)
	switch x := v.(type) {
	case *ssa.UnOp:
		if x.Op == token.MUL {
			if g, ok := x.X.(*ssa.Global); ok && isErrorType(deref(g.Type())) {
				return true
			}
		}
	case *ssa.Call:
		return isErrorCtor(x)
	}
	return false
}

// withSmallHelpers returns fn together with the small repository helpers it
// calls statically (depth 2): "fn contains …" rules look at all of them, so
// that a statement moved into a helper is still found.
func withSmallHelpers(fn *ssa.Function) []*ssa.Function {
	out := []*ssa.Function{fn}
	seen := map[*ssa.Function]bool{fn: true}
	frontier := []*ssa.Function{fn}
	for depth := 0; depth < 2; depth++ {
		var next []*ssa.Function
		for _, f := range frontier {
			for _, x := range withClosures(f) {
				for _, ci := range callInstrs(x) {
					if g := ci.Common().StaticCallee(); g != nil && !seen[g] && isSmallHelper(g) {
						seen[g] = true
						out = append(out, g)
						next = append(next, g)
					}
				}
			}
		}
		frontier = next
	}
	return out
}

// sitesVia returns the instructions of fn that stand for an effect matched by
// match: the matching instructions of fn itself, and the calls of fn to an
// unexported repository function with no other caller whose body (two levels
// deep) contains a matching instruction — the tail of a function split off
// into a helper. Gating and ordering are then judged at the call.
func sitesVia(w *World, fn *ssa.Function, match func(ssa.Instruction) bool) []ssa.Instruction {
	var out []ssa.Instruction
	var contains func(g *ssa.Function, depth int) bool
	contains = func(g *ssa.Function, depth int) bool {
		for _, x := range withClosures(g) {
			for _, b := range x.Blocks {
				for _, in := range b.Instrs {
					if match(in) {
						return true
					}
					if ci, ok := in.(ssa.CallInstruction); ok && depth > 0 {
						if h := ci.Common().StaticCallee(); splitOffHelper(w, h) && contains(h, depth-1) {
							return true
						}
					}
				}
			}
		}
		return false
	}
	for _, x := range withClosures(fn) {
		for _, b := range x.Blocks {
			for _, in := range b.Instrs {
				if match(in) {
					out = append(out, in)
					continue
				}
				if ci, ok := in.(ssa.CallInstruction); ok {
					if h := ci.Common().StaticCallee(); splitOffHelper(w, h) && contains(h, 1) {
						out = append(out, in)
					}
				}
			}
		}
	}
	return out
}

// splitOffHelper: an unexported repository function with a body and exactly one
// static call site in non-test code.
func splitOffHelper(w *World, h *ssa.Function) bool {
	if h == nil || h.Blocks == nil || h.Pkg == nil || !strings.HasPrefix(h.Pkg.Pkg.Path(), modPath) {
		return false
	}
	if o := h.Object(); o == nil || o.Exported() {
		return false
	}
	n := 0
	for _, ci := range w.Callers(h) {
		if !strings.HasSuffix(w.fileOf(ci.Parent().Pos()), "_test.go") {
			n++
		}
	}
	return n == 1
}

// contradictoryAtoms: the conjunction contains the same comparison of the same
// operands (the same SSA values, constants compared by value) once as true
// and once as false. go/ssa does not share repeated sub-expressions, so a
// condition written twice yields two values that path enumeration cannot
// relate; paths deciding them differently are infeasible.
func contradictoryAtoms(atoms []Atom) bool {
	operand := func(v ssa.Value) string {
		if v == nil {
			return "-"
		}
		v = stripConvNoBind(v)
		if cv, ok := v.(*ssa.Const); ok {
			if cv.Value == nil {
				return "const:nil"
			}
			return "const:" + cv.Value.ExactString()
		}
		return fmt.Sprintf("%p", v)
	}
	seen := map[string]bool{}
	for _, a := range atoms {
		if a.Kind != "eq" && a.Kind != "cmp" && a.Kind != "isnil" {
			continue
		}
		k := a.Kind + "|" + a.Op.String() + "|" + operand(a.X) + "|" + operand(a.Y)
		if prev, has := seen[k]; has && prev != a.Truth {
			return true
		}
		seen[k] = a.Truth
		if a.Kind == "eq" {
			// symmetric form
			k2 := a.Kind + "|" + a.Op.String() + "|" + operand(a.Y) + "|" + operand(a.X)
			if prev, has := seen[k2]; has && prev != a.Truth {
				return true
			}
		}
	}
	return false
}

// snapshotBinds / restoreBinds: a property whose rules all judge one set of
// path conditions computed once (C12's decision table) keeps the helper
// bindings those conditions were normalised under across its rules.
func snapshotBinds() map[*ssa.Parameter]ssa.Value {
	m := map[*ssa.Parameter]ssa.Value{}
	for k, v := range paramBind {
		m[k] = v
	}
	return m
}

func restoreBinds(m map[*ssa.Parameter]ssa.Value) {
	for k, v := range m {
		paramBind[k] = v
	}
}

// withSplitOffHelpers: fn, its small helpers, and the unexported repository
// functions whose only caller is fn (a part of fn split off into a function of
// any size). bindSplitOff binds the parameters of such callees to fn's
// arguments so that values inside them resolve to fn's own values.
func withSplitOffHelpers(w *World, fn *ssa.Function) []*ssa.Function {
	out := withSmallHelpers(fn)
	seen := map[*ssa.Function]bool{}
	for _, f := range out {
		seen[f] = true
	}
	for _, ci := range callInstrs(fn) {
		if h := ci.Common().StaticCallee(); h != nil && !seen[h] && splitOffHelper(w, h) {
			seen[h] = true
			out = append(out, h)
		}
	}
	return out
}

func bindSplitOff(w *World, fn *ssa.Function) {
	for _, ci := range callInstrs(fn) {
		h := ci.Common().StaticCallee()
		if h == nil || !(isSmallHelper(h) || splitOffHelper(w, h)) {
			continue
		}
		for i, prm := range h.Params {
			if i < len(ci.Common().Args) {
				paramBind[prm] = ci.Common().Args[i]
			}
		}
	}
}

// EntryAlt is one concrete value an interface-typed argument can hold, with
// the block (and branch) under which it was chosen.
type EntryAlt struct {
	Val  ssa.Value       // the concrete (pre-MakeInterface) value
	Pred *ssa.BasicBlock // block whose facts apply to this alternative (nil: the use site's own)
	Edge *Fact           // branch taken from Pred towards the merge
}

// entryAlternatives expands an interface value chosen in branches
// (var e I; if … { e = A{} } else { e = B{} }; use(e)) into its alternatives.
func entryAlternatives(v ssa.Value) []EntryAlt {
	var out []EntryAlt
	seen := map[ssa.Value]bool{}
	var walk func(v ssa.Value, pred *ssa.BasicBlock, edge *Fact)
	walk = func(v ssa.Value, pred *ssa.BasicBlock, edge *Fact) {
		if seen[v] {
			return
		}
		seen[v] = true
		switch x := v.(type) {
		case *ssa.MakeInterface:
			out = append(out, EntryAlt{x.X, pred, edge})
		case *ssa.ChangeInterface:
			walk(x.X, pred, edge)
		case *ssa.Phi:
			for i, e := range x.Edges {
				p := x.Block().Preds[i]
				var ef *Fact
				if ifi, ok := p.Instrs[len(p.Instrs)-1].(*ssa.If); ok && p.Succs[0] != p.Succs[1] {
					ef = &Fact{Cond: ifi.Cond, Truth: p.Succs[0] == x.Block(), If: ifi}
				}
				walk(e, p, ef)
			}
		default:
			out = append(out, EntryAlt{v, pred, edge})
		}
	}
	walk(v, nil, nil)
	return out
}

// Atoms of the conditions under which the alternative is chosen, seen from site.
func (e EntryAlt) AtomsAt(site ssa.Instruction) []Atom {
	if e.Pred == nil {
		return atomsOf(factsAtInstr(site))
	}
	f := factsAtRaw(e.Pred)
	if e.Edge != nil {
		f = append(f, *e.Edge)
	}
	return atomsOf(expandFlags(f))
}

// onlyCalledFrom: h is an unexported repository function all of whose
// non-test call sites (at least one) lie in fn — a part of fn factored out,
// possibly used at several places of fn.
func onlyCalledFrom(w *World, h, fn *ssa.Function) bool {
	if h == nil || h.Blocks == nil || h.Pkg == nil || !strings.HasPrefix(h.Pkg.Pkg.Path(), modPath) || h == fn {
		return false
	}
	if o := h.Object(); o == nil || o.Exported() {
		return false
	}
	n := 0
	for _, ci := range w.Callers(h) {
		if strings.HasSuffix(w.fileOf(ci.Parent().Pos()), "_test.go") {
			continue
		}
		if ci.Parent() != fn {
			return false
		}
		n++
	}
	return n > 0
}

#!/bin/sh
# usage: check.sh <property-id> <quick|thorough>
# Analyses /repo's current working tree; nothing from /repo is executed.
export GOFLAGS=-mod=mod GOPROXY=off GOSUMDB=off GOTOOLCHAIN=local
unset GOWORK
cd /verif
if [ ! -x /verif/bin/ycheck ] || [ -n "$(find /verif/ycheck -newer /verif/bin/ycheck \( -name '*.go' -o -name '*.json' -o -name 'go.mod' \) 2>/dev/null | head -1)" ]; then
  (cd /verif/ycheck && go build -o /verif/bin/ycheck .) || { echo "UNDECIDED: cannot build the checker"; exit 2; }
fi
exec /verif/bin/ycheck -property "$1" -tier "${2:-quick}"

#!/usr/bin/env python3
"""Regenerates the generated tables of DESIGN.md (between <!-- X:begin --> / <!-- X:end --> markers):
   seeded-table (from seeded/*/meta.json) and claims-table (from evidence/*.json)."""
import json, glob, os, re
root = os.path.dirname(os.path.abspath(__file__))

def seeded_table():
    rows = ["| seeded change (`seeded/<id>/`) | breaks | first run | reported by (now) | needs, in order to manifest |", "|---|---|---|---|---|"]
    n = c0 = 0
    for m in sorted(glob.glob(os.path.join(root, "seeded", "*", "meta.json"))):
        d = json.load(open(m))
        n += 1
        first = "caught" if d.get("detected_before_strengthening") else "missed"
        c0 += first == "caught"
        rows.append("| %s | %s | %s | %s | %s |" % (d["id"], d["property"], first, d["detected_by"].replace("|", "/"), d.get("needs_to_manifest", "").replace("|", "/")[:220]))
    rows.append("")
    rows.append("%d seeded changes filed; %d were reported by the rules as they stood when the change arrived, all %d are reported now." % (n, c0, n))
    return "\n".join(rows)

def claims_table():
    rows = ["| id | rules run | obligations | discharged | known findings | functions analysed |", "|---|---|---|---|---|---|"]
    for e in sorted(glob.glob(os.path.join(root, "evidence", "C??.json"))):
        d = json.load(open(e))
        cov = d["coverage"]
        rules = cov.get("rules", [])
        names = ", ".join(r["id"].split(".")[1] if isinstance(r, dict) else str(r) for r in rules)
        rows.append("| %s | %s | %s | %s | %s | %s |" % (d["property_id"], names, cov.get("obligations"), cov.get("discharged"), cov.get("known_findings"), cov.get("functions_analysed")))
    return "\n".join(rows)

p = os.path.join(root, "DESIGN.md")
s = open(p).read()
for name, fn in (("seeded-table", seeded_table), ("claims-table", claims_table)):
    b, e = "<!-- %s:begin -->" % name, "<!-- %s:end -->" % name
    if b in s and e in s:
        s = s[:s.index(b) + len(b)] + "\n" + fn() + "\n" + s[s.index(e):]
open(p, "w").write(s)
print("tables regenerated")
